"""C05 -- requests resolve to a documented status; refused requests change nothing."""
import json
from lib.common import coq_props, coq_cases
from lib import world, reqwalk, gen_tie, docmask

DISRUPT = ("node-shutdown", "node-startup", "node-reset", "node-service-stop", "node-service-disable", "node-service-pause",
           "node-file-delete", "node-folder-create", "node-application-remove", "node-application-close", "host-nic-disable",
           "network-port-disable", "node-service-start", "node-application-install", "node-file-restore")


def explore(ck, name, cfg, rounds, per_round, label):
    rng = ck.rng
    game = world.make_game(cfg)
    game.setup_for_episode(0)
    sim = game.simulation
    ids = reqwalk.KeyIds()
    coq_in = []
    seen = {}
    for rd in range(rounds):
        if rd in (1, 3):
            # bring every powered-off node back up so that the post-start-up state (declared-OFF nodes, nodes the
            # walk shut down) is explored as well
            for n in sim.network.nodes.values():
                if n.operating_state.name == "OFF":
                    sim.apply_request(["network", "node", n.config.hostname, "startup"])
            for _ in range(5):
                game.pre_timestep()
                game.advance_timestep()
        inv = world.inventory(sim)
        cat = world.catalogue(inv, rng, missing=True)
        # stratified: every (action type, node) group is visited before any group is visited twice
        groups = {}
        for c in cat:
            groups.setdefault((c[0], docmask_node(c[1])), []).append(c)
        order = sorted(groups, key=lambda g: (seen.get(g, 0), rng.random()))
        batch = []
        for g in order[:per_round]:
            seen[g] = seen.get(g, 0) + 1
            batch.append(rng.choice(groups[g]))
        # the whole live tree, sampled, so that every kind of path is visited, not only those actions use
        paths = sim._request_manager.get_request_types_recursively()
        reqs = [(t, o, ex, None) for (t, o, ex) in batch]
        for p in rng.sample(paths, min(per_round // 3, len(paths))):
            reqs.append(("tree-path", None, None, p))
        for (t, o, ex, raw) in reqs:
            try:
                req = raw if raw is not None else world.form_request(t, o)
            except Exception as e:
                ck.violation("form-request-raises:%s" % t, "form_request raised %r" % (e,), {"scenario": name, "action": t, "options": o})
                continue
            if not reqwalk.hashable_path(req[:reqwalk.key_depth(sim._request_manager, req)]):
                continue
            variants = [("as-formed", req)]
            nk = reqwalk.key_depth(sim._request_manager, req)
            muts = reqwalk.mutations(req, rng, nk)
            variants += rng.sample(muts, min(3 if raw is None else 2, len(muts)))
            for (mlabel, r) in variants:
                inv_now = world.inventory(sim) if (mlabel == "as-formed" and raw is None) else None
                doc = docmask.available(sim, t, o) if (mlabel == "as-formed" and raw is None) else None
                res = reqwalk.execute(sim, r, ids, compare_state=True)
                if res.get("skip"):
                    ck.count("skipped:validator-raised-on-malformed-args")
                    continue
                ck.case(canon=(name, rd, json.dumps(r, default=str)), nontrivial=True,
                        sample={"scenario": name, "request": r, "mutation": mlabel, "status": res.get("status"),
                                "reaches": res.get("reaches"), "handler_invoked": res.get("invoked")})
                ck.count("mutation:" + mlabel.split("@")[0])
                ck.count("status:%s" % res.get("status"))
                rep = {"scenario": name, "round": rd, "request": r, "mutation": mlabel, "action": t, "options": o, "result":
                       {k: v for k, v in res.items() if k not in ("coq_in",)}}
                if res["raised"] and raw is not None and res.get("invoked"):
                    # a bare tree path carries no handler arguments: the handler's own argument errors are outside the property
                    ck.count("skipped:tree-path-without-handler-arguments")
                    continue
                if res["raised"]:
                    # handler arguments malformed by construction are outside the property (it quantifies over paths);
                    # as-formed requests and key-part mutations must never raise
                    ck.violation("request-raises:%s:%s" % (t if mlabel == "as-formed" else "mutated", res["raised"].split(":")[1].strip()),
                                 "request %s raised %s" % (r, res["raised"]), rep)
                    continue
                st = res["status"]
                if st not in reqwalk.STATUS or st == "pending" and not res["invoked"]:
                    ck.violation("undocumented-status", "request %s answered status %r" % (r, st), rep)
                if not res["reaches"]:
                    want = "failure" if res["in_tree"] or st == "failure" else "unreachable"
                    if st == "success" or res["invoked"]:
                        ck.violation("refused-but-executed:%s" % t, "request %s must be refused (path/validators) but status=%s invoked=%s" % (r, st, res["invoked"]), rep)
                    if not res["in_tree"] and st not in ("unreachable", "failure"):
                        ck.violation("missing-target-not-unreachable:%s" % t, "request %s addresses nothing but status=%s" % (r, st), rep)
                    if res.get("state_diff"):
                        ck.violation("refused-changed-state:%s" % t, "refused request %s changed the simulation: %s" % (r, res["state_diff"][:3]), rep)
                else:
                    if res["invoked"] and res["validator_refusals"] and mlabel == "as-formed" and raw is None:
                        ck.count("note:refused-by-validator-below-registered-leaf")
                    if not res["invoked"]:
                        ck.violation("reaching-not-routed:%s" % t, "request %s passes every validator but its handler was not invoked (status %s)" % (r, st), rep)
                if doc is not None and bool(doc) != bool(res["invoked"]):
                    ck.violation("permission-table:%s" % t, "%s %s: the documented permission rules evaluated on the simulator objects say %s, "
                                 "but the request %s its handler (status %s)" % (t, o, "allowed" if doc else "refused",
                                                                                "reached" if res["invoked"] else "did not reach", st), rep)
                if mlabel == "as-formed" and raw is None and st == "unreachable" and world.targets_exist(inv_now, t, o):
                    ck.violation("existing-target-unreachable:%s" % t, "action %s %s names existing components but was unreachable" % (t, o), rep)
                if "coq_in" in res:
                    coq_in.append((res["coq_in"], res["impl_out"]))
        dis = [c for c in cat if c[0] in DISRUPT and c[2]]
        reqwalk.random_walk_step(game, rng, dis or cat, n_actions=4, ticks=rng.choice([0, 1, 1, 2]))
    ck.traces += len(coq_in)
    try:
        mism = coq_cases(ck, "From PV Require Import Model.ReqTree.", "run_case", coq_in, name="c05_" + label, chunk=150)
    except RuntimeError as e:
        ck.broken("correspondence Model.ReqTree.run_case (%s)" % label, str(e))
        return
    ck.obligation("correspondence RequestManager.__call__/check_valid = Model.ReqTree on %d live requests (%s)" % (len(coq_in), name),
                  "correspondence", not mism, "" if not mism else "first mismatch: case %d model=%s impl=%s input=%s" % (
                      mism[0][0], mism[0][1], coq_in[mism[0][0]][1], coq_in[mism[0][0]][0][-300:]))


def sw_battery(ck, name, cfg):
    """every verb of every service and application of one host, each applied twice in a row and again after a tick, so that
    the handlers are reached in all their internal states (fixing, restarting, installing, overwhelmed ...): every request is
    answered with exactly one of the four statuses and never raises."""
    rng = ck.rng
    game = world.make_game(cfg)
    game.setup_for_episode(0)
    sim = game.simulation
    hosts = [n for n in sim.network.nodes.values() if n.operating_state.name == "ON"]
    if not hosts:
        return
    node = rng.choice(hosts)
    h = node.config.hostname
    from primaite.interface.request import RequestResponse
    for sname, sw in list(node.software_manager.software.items()):
        kind = "service" if type(sw).__mro__ and any(c.__name__ == "Service" for c in type(sw).__mro__) else "application"
        verbs = ["scan", "fix", "fix", "stop", "start", "pause", "resume", "restart", "fix", "disable", "enable", "start", "fix", "fix"] if kind == "service" \
            else ["scan", "fix", "fix", "close", "execute", "fix", "fix", "scan"]
        for k, v in enumerate(verbs):
            r = ["network", "node", h, kind, sname, v]
            try:
                resp = sim.apply_request(r)
            except Exception as e:
                ck.violation("request-raises:%s:%s" % (v, type(e).__name__), "request %s raised %r" % (r, e), {"scenario": name, "request": r, "verbs_before": verbs[:k]})
                break
            ck.evaluations += 1
            ck.case(canon=(name, "sw", sname, k, v), nontrivial=k > 0 and verbs[k - 1] == v)
            if not isinstance(resp, RequestResponse) or resp.status not in ("success", "failure", "unreachable", "pending"):
                ck.violation("answer-not-one-of-the-four-statuses:%s" % v, "request %s (after %s on the same %s) was answered %r, which is not a response with one of the four statuses"
                             % (r, verbs[:k], kind, resp), {"scenario": name, "request": r, "verbs_before": verbs[:k], "health": sw.health_state_actual.name})
                break
            if k % 5 == 4:
                try:
                    game.pre_timestep(); sim.apply_timestep(game.step_counter); game.step_counter += 1
                except Exception as e:
                    ck.violation("tick-raises:%s" % type(e).__name__, "a tick after %s raised %r" % (r, e), {"scenario": name, "request": r})
                    return


def fs_battery(ck, name, cfg):
    """the clauses a path analysis cannot see, because folder and file names are HANDLER ARGUMENTS of the file-system level
    requests: (1) a request naming a deleted / never-existing folder or file is not answered 'success' and changes nothing;
    (2) a request naming an existing file is carried out on THAT file (also when an earlier file of the same name was deleted)."""
    rng = ck.rng
    game = world.make_game(cfg)
    game.setup_for_episode(0)
    sim = game.simulation
    hosts = [n for n in sim.network.nodes.values() if n.config.type in world.HOSTS and n.operating_state.name == "ON"]
    if not hosts:
        return
    node = rng.choice(hosts)
    h = node.config.hostname
    base = ["network", "node", h, "file_system"]

    def req(*tail):
        r = base + list(tail)
        before = world.norm_state(node.describe_state())
        try:
            resp = sim.apply_request(r)
        except Exception as e:
            ck.violation("request-raises:file-system:%s" % type(e).__name__, "request %s raised %r" % (r, e), {"scenario": name, "request": r})
            return None, None, r
        after = world.norm_state(node.describe_state())
        ck.evaluations += 1
        ck.case(canon=(name, "fs", json.dumps(r)), nontrivial=True)
        return resp.status, world.dict_diff(before, after), r

    def must_refuse(tag, *tail):
        st, diff, r = req(*tail)
        if st is None:
            return
        if st == "success" or diff:
            ck.violation("nonexistent-target-served:%s" % tag, "request %s names a %s, yet it was answered %r%s" % (r, tag, st, " and changed the node: %s" % diff[:2] if diff else ""),
                         {"scenario": name, "request": r, "status": st, "diff": diff[:4] if diff else []})

    fs = node.file_system
    # (2) same name, new object
    for rnd in range(2):
        fo, fi = "vault%d" % rnd, "ledger.txt"
        req("create", "folder", fo)
        req("create", "file", fo, fi, False)
        req("delete", "file", fo, fi)
        req("create", "file", fo, fi, False)
        live = fs.get_file(fo, fi)
        for verb, check in (("scan", None), ("corrupt", "CORRUPT"), ("repair", "GOOD"), ("checkhash", None)):
            st, diff, r = req("folder", fo, "file", fi, verb)
            if st is None or live is None:
                continue
            if verb in ("corrupt", "repair") and (st != "success" or live.health_status.name != check):
                ck.violation("request-not-carried-out-on-the-named-file:%s" % verb,
                             "after create / delete / create of %s/%s, request %s answered %r and the live file's health is %s (expected success and %s)" % (fo, fi, r, st, live.health_status.name, check),
                             {"scenario": name, "request": r, "status": st, "health": live.health_status.name})
            if verb == "scan" and st != "success":
                ck.violation("request-not-carried-out-on-the-named-file:scan", "after create / delete / create of %s/%s, request %s answered %r" % (fo, fi, r, st), {"scenario": name, "request": r, "status": st})
        # timed folder operations asked for again while the first is still running: still one of the four answers
        for verb in ("scan", "scan", "restore", "restore", "corrupt", "repair", "restore"):
            try:
                resp = sim.apply_request(base + ["folder", fo, verb])
            except Exception as e:
                ck.violation("request-raises:file-system:%s" % type(e).__name__, "request %s raised %r" % (base + ["folder", fo, verb], e), {"scenario": name})
                break
            ck.evaluations += 1
            if getattr(resp, "status", None) not in ("success", "failure", "unreachable", "pending"):
                ck.violation("answer-not-one-of-the-four-statuses:folder-%s" % verb, "request %s (repeated while the first is in progress) was answered %r"
                             % (base + ["folder", fo, verb], resp), {"scenario": name, "request": base + ["folder", fo, verb]})
                break
        # (1) a deleted folder that held files, and names that never existed
        req("delete", "folder", fo)
        for tail, tag in ((("restore", "file", fo, fi), "file in a deleted folder"), (("delete", "file", fo, fi), "file in a deleted folder"), (("access", fo, fi), "file in a deleted folder"),
                          (("folder", fo, "file", fi, "scan"), "file in a deleted folder"), (("folder", fo, "scan"), "deleted folder"),
                          (("restore", "file", "no_such_folder", "x.txt"), "folder that never existed"), (("delete", "file", "no_such_folder", "x.txt"), "folder that never existed"),
                          (("restore", "folder", "no_such_folder"), "folder that never existed"), (("delete", "folder", "no_such_folder"), "folder that never existed"),
                          (("access", "no_such_folder", "x.txt"), "folder that never existed")):
            must_refuse(tag, *tail)
        req("restore", "folder", fo)
        for _ in range(4):
            game.pre_timestep(); game.advance_timestep()
        must_refuse("file that never existed", "restore", "file", fo, "never.txt")
        must_refuse("file that never existed", "delete", "file", fo, "never.txt")
        must_refuse("file that never existed", "access", fo, "never.txt")


def docmask_node(o):
    return o.get("node_name") or o.get("source_node") or o.get("target_nodename") or o.get("target_router") or o.get("target_firewall_nodename")


def scenarios(ck):
    out = [("pkg/data_manipulation.yaml", world.load_cfg(world.PKG + "/data_manipulation.yaml"))]
    from lib import family
    out.append(("family/%d" % ck.seed, family.generate(ck.seed)))
    out.append(("family/%d+off" % (ck.seed + 1), family.generate(ck.seed + 1, force_off=True)))
    if not ck.quick:
        for nme, p in world.shipped("all"):
            if nme.endswith(("uc7_config.yaml", "dmz_network.yaml", "basic_firewall.yaml", "install_and_configure_apps.yaml", "basic_node_with_users.yaml")):
                out.append((nme, world.load_cfg(p)))
        for k in range(1, 4):
            out.append(("family/%d" % (ck.seed + k), family.generate(ck.seed + k)))
    return out


def run(ck):
    ck.rule = ("requests formed from every registered action type x every component (existing and missing), plus sampled paths of "
               "the live request tree, each also mutated (missing / misspelt / truncated element at any depth of the key path), executed "
               "at states reached by a disrupting random walk (nodes off/booting, services stopped/disabled, files deleted, software "
               "uninstalled); plus a file-system battery whose folder / file names are handler arguments (same name after delete and re-create; deleted and "
               "never-existing folders and files); distinct by (scenario, round, request)")
    coq_props(ck)
    gen_tie.check(ck, ["reqtree", "request"])
    for i, (name, cfg) in enumerate(scenarios(ck)):
        explore(ck, name, cfg, rounds=ck.n(5, 12), per_round=ck.n(70, 150), label=str(i))
        fs_battery(ck, name, cfg)
        sw_battery(ck, name, cfg)


def replay(ck, path):
    d = json.load(open(path))["replay"]
    ck.notes.append("replay re-runs the exploration with the recorded seed; the recorded request was %s" % d.get("request"))
    run(ck)
