"""C20 -- the simulation built from a scenario file is what the file says."""
import copy, glob, json, os, random
from lib.common import coq_props, coq_cases, coq_eval_raw, COQ as COQ_DIR
from lib import world, family, gen_tie, inv20, buildkeys


def enrich(cfg, rng):
    """make generated scenarios exercise what shipped ones do not: two routes to one prefix, declared users, options."""
    for n in cfg["simulation"]["network"]["nodes"]:
        if n["type"] in ("router", "firewall"):
            rts = n.setdefault("routes", [])
            if rng.random() < 0.7:
                hop = "10.0.1.%d" % rng.randint(100, 110)
                rts.append({"address": "10.77.0.0", "subnet_mask": "255.255.0.0", "next_hop_ip_address": hop, "metric": 1})
                rts.append({"address": "10.77.0.0", "subnet_mask": "255.255.0.0", "next_hop_ip_address": "10.0.1.%d" % rng.randint(111, 120), "metric": rng.choice([0.5, 5, 10])})
            if rng.random() < 0.4:
                n["default_route"] = {"next_hop_ip_address": "10.0.1.%d" % rng.randint(200, 210)}
        if n["type"] == "router" and rng.random() < 0.5:
            # the scenario's own rules where a router would otherwise put its default ARP / ICMP permits
            n.setdefault("acl", {})[22] = {"action": "DENY", "protocol": "ICMP", "src_ip": "10.0.1.%d" % rng.randint(10, 12)}
            if rng.random() < 0.5:
                n["acl"][23] = {"action": "PERMIT", "protocol": "TCP", "dst_port": "SSH"}
        if n["type"] in ("computer", "server") and rng.random() < 0.3:
            n.setdefault("users", []).append({"username": "extra_%s" % n["hostname"], "password": "x", "is_admin": rng.random() < 0.5})
    for l in cfg["simulation"]["network"]["links"]:
        if rng.random() < 0.25:
            l["bandwidth"] = rng.choice([2.5, 0.5, 12.75, 100, 1000])
    hosts = [n for n in cfg["simulation"]["network"]["nodes"] if n["type"] in ("computer", "server")]
    if len(hosts) >= 2 and rng.random() < 0.6:
        # one folders block written once and used by several hosts (a YAML anchor / alias gives every user the SAME object):
        # a file declared by name without extension plus an explicit type
        shared = [{"folder_name": "shared", "files": [{"file_name": "passwords", "type": "TXT"}, {"file_name": "report.pdf"}]}]
        for h in rng.sample(hosts, rng.randint(2, min(3, len(hosts)))):
            h["folders"] = shared
    for h in hosts:
        if rng.random() < 0.4:
            # a host-level DNS server and the host's DNS client re-declared with a server of its own
            h["dns_server"] = "10.0.1.%d" % rng.randint(50, 59)
            svcs = h.setdefault("services", [])
            if not any(x.get("type") == "dns-client" for x in svcs):
                svcs.append({"type": "dns-client", "options": {"dns_server": "10.0.2.%d" % rng.randint(60, 69)}})
    return cfg


def shuffle_keys(c, rng):
    if isinstance(c, dict):
        ks = list(c.keys())
        rng.shuffle(ks)
        return {k: shuffle_keys(c[k], rng) for k in ks}
    if isinstance(c, list):
        return [shuffle_keys(x, rng) for x in c]
    return c


def my_assemble(root, ep):
    """episode-scheduled scenario, assembled independently of EpisodeListScheduler."""
    import yaml
    sched = yaml.safe_load(open(os.path.join(root, "schedule.yaml")))
    eps = sched["schedule"]
    files = eps[ep % len(eps)]
    text = "\n".join([open(os.path.join(root, f)).read() for f in files] + [open(os.path.join(root, sched["base_scenario"])).read()])
    cfg = yaml.safe_load(text)
    flat = []
    for a in cfg["agents"]:
        if isinstance(a, (list, tuple)):
            flat.extend(a)
        else:
            flat.append(a)
    cfg["agents"] = flat
    return cfg, len(eps)


def io_off(cfg):
    cfg.setdefault("io_settings", {})
    cfg["io_settings"].update(world.IO_OFF)
    return cfg


def inventory_case(ck, name, cfg, coq_in, build=None):
    """build the scenario; compare the objects with what the model says the file declares."""
    net = cfg.get("simulation", {}).get("network", {})
    if net.get("node_sets") or any(n.get("type") not in buildkeys.NODE_TYPES or n.get("type") == "wireless-router" for n in net.get("nodes", [])):
        ck.count("skipped:outside-the-model")
        return None
    it = inv20.Interner()
    term = inv20.to_coq(cfg, it)
    try:
        game = build() if build else world.make_game(cfg)
    except Exception as e:
        if build:        # an episode of a shipped schedule (assembled fine independently) must load
            ck.violation("scheduled-episode-does-not-load:%s" % type(e).__name__, "%s: the scheduler / loader raised %r" % (name, e), {"scenario": name})
        else:
            ck.count("skipped:does-not-load")
        return None
    rows = inv20.actual_rows(game, cfg, it)
    # "when the scenario is loaded" includes the episode set-up the environment performs on every reset
    try:
        game.setup_for_episode(episode=1)
        rows1 = inv20.actual_rows(game, cfg, it)
    except Exception as e:
        ck.violation("episode-setup-raises:%s" % type(e).__name__, "%s: setup_for_episode raised %r" % (name, e), {"scenario": name})
        rows1 = rows
    if sorted(rows1) != sorted(rows):
        from collections import Counter
        gone = list((Counter(map(tuple, rows)) - Counter(map(tuple, rows1))).elements())
        new = list((Counter(map(tuple, rows1)) - Counter(map(tuple, rows))).elements())
        # nodes declared OFF are switched off by the set-up (their row changes on purpose): compare everything else
        gone = [r for r in gone if r[0] != 1]
        new = [r for r in new if r[0] != 1]
        if gone or new:
            ck.violation("episode-setup-changes-the-declared-inventory:%s" % ",".join(sorted({inv20.ROWNAME.get(r[0], str(r[0])) for r in gone + new})),
                         "%s: after setup_for_episode the built simulation lost %s and gained %s" % (name, [inv20.describe(r, it) for r in gone[:3]], [inv20.describe(r, it) for r in new[:3]]),
                         {"scenario": name, "lost": [inv20.describe(r, it) for r in gone[:10]], "gained": [inv20.describe(r, it) for r in new[:10]]})
    coq_in.append((term, inv20.flatten(rows)))
    ck.case(canon=(name,), nontrivial=len(rows) > 10, sample={"scenario": name, "rows": len(rows)} if len(ck.samples) < 4 else None)
    ck.evaluations += len(rows)
    for r in rows:
        ck.count("row:%s" % inv20.ROWNAME.get(r[0], r[0]))
    return {"name": name, "it": it, "rows": rows, "game": game}


PAIRS = []          # (name, variant, term, variant term): the hypothesis of the key-order theorem, checked by the kernel


def behaviour_case(ck, name, cfg, steps):
    """key order / formatting must not matter: same inventory, same behaviour under the same actions."""
    import yaml
    import zlib
    rng = random.Random(zlib.crc32(name.encode()))
    variants = [("keys-shuffled", shuffle_keys(copy.deepcopy(cfg), rng)),
                ("yaml-round-trip-sorted-flow", yaml.safe_load(yaml.safe_dump(copy.deepcopy(cfg), sort_keys=True, default_flow_style=True)))]
    it = inv20.Interner()
    t0 = inv20.to_coq(cfg, it)
    for vname, vcfg in variants:
        PAIRS.append((name, vname, t0, inv20.to_coq(vcfg, it)))
    if not world.has_single_proxy(cfg):
        return
    base = run_trace(cfg, steps, 7)
    if base is None:
        return
    for vname, vcfg in variants:
        tr = run_trace(vcfg, steps, 7)
        ck.evaluations += steps
        ck.case(canon=(name, vname), nontrivial=True)
        if tr is None:
            ck.violation("reordered-scenario-does-not-load:%s" % vname, "%s loads, its %s variant does not" % (name, vname), {"scenario": name, "variant": vname})
            continue
        for t, (a, b) in enumerate(zip(base, tr)):
            if a != b:
                ck.violation("reordered-scenario-behaves-differently:%s" % vname,
                             "%s and its %s variant differ at step %d (%s)" % (name, vname, t, "inventory" if t == 0 else
                                                                                 ", ".join(n for n, x, y in zip(("state digest", "reward", "observation"), a, b) if x != y)),
                             {"scenario": name, "variant": vname, "step": t, "base": [str(x)[:300] for x in a] if t else None, "variant_record": [str(x)[:300] for x in b] if t else None})
                break


def run_trace(cfg, steps, seed):
    cfg = copy.deepcopy(cfg)
    cfg["game"]["seed"] = 4242
    try:
        random.seed(99)
        env = world.make_env(cfg)
    except Exception:
        return None
    it = inv20.Interner()
    out = [inv20.flatten(inv20.actual_rows(env.game, cfg, it))]
    obs, _ = env.reset(seed=seed)
    rng = random.Random(seed)
    n = env.action_space.n
    for t in range(steps):
        a = rng.randrange(n)
        obs, rew, term, trunc, info = env.step(a)
        # the observation is compared leaf by leaf through its nested form: the LAYOUT of a flattened vector follows the order in
        # which the scenario lists observation options (e.g. monitored protocols), which the property does not speak about
        nested = env.agent.observation_manager.current_observation
        out.append((world.state_digest(env.game.simulation.describe_state()), round(float(rew), 9), json.dumps(world.norm_state(nested), sort_keys=True, default=str)))
        if term or trunc:
            break
    return out


def run(ck):
    ck.rule = ("every shipped scenario file, every episode (and two past the end) of every shipped episode-scheduled scenario assembled independently of the "
               "scheduler, the loadable test-asset scenarios and generated scenario families (switched / routed / firewalled; node types, addressing, ACL "
               "tables with explicit positions, route tables incl. two routes to one prefix, default routes, software mix with options, users, folders/files, "
               "agents): the built objects are read back (nodes, ports, rules at positions, routes in order, non-system software, behavioural options where "
               "the software reads them, users, files, links with bandwidth, agents) and compared as a multiset of rows with Model.Build on the parsed file; "
               "key-shuffled and re-serialised variants must give the same inventory and the same state digests, rewards and observations under the same "
               "actions; evaluations = rows compared + steps compared")
    coq_props(ck)
    gen_tie.check(ck, ["build", "schedule"])
    want = buildkeys.coq_text()
    have = open(os.path.join(COQ_DIR, "Model", "BuildKeys.v")).read()
    ck.obligation("coq/Model/BuildKeys.v is the identifier table the harness uses", "tie", want == have, "" if want == have else "regenerate with harness/lib/buildkeys.py")
    rng = ck.rng
    coq_in, cases = [], []
    # generated families
    for k in range(ck.n(9, 45)):
        cfg = enrich(family.generate(ck.seed + k), rng)
        r = inventory_case(ck, "family/%d" % (ck.seed + k), cfg, coq_in)
        if r:
            cases.append(r)
        if k < ck.n(3, 12):
            behaviour_case(ck, "family/%d" % (ck.seed + k), cfg, ck.n(8, 20))
    # shipped single-file scenarios and test assets
    files = sorted(glob.glob(world.PKG + "/*.yaml")) + (sorted(glob.glob(world.ASSETS + "/*.yaml")) if not ck.quick else sorted(glob.glob(world.ASSETS + "/*.yaml"))[:12])
    for path in files:
        try:
            cfg = io_off(world.load_cfg(path))
        except Exception:
            continue
        if not isinstance(cfg, dict) or "simulation" not in cfg or "game" not in cfg:
            continue
        r = inventory_case(ck, os.path.relpath(path, world.REPO), cfg, coq_in)
        if r:
            cases.append(r)
        if path.endswith("data_manipulation.yaml") or (not ck.quick and path.endswith("uc7_config.yaml")):
            behaviour_case(ck, os.path.basename(path), cfg, ck.n(8, 20))
    # episode-scheduled scenarios: every episode, and past the end (a combination scheduled again must build the same)
    from primaite.session.episode_schedule import build_scheduler
    for root in sorted(glob.glob(world.PKG + "/*/")):
        if not os.path.exists(os.path.join(root, "schedule.yaml")):
            continue
        sched = build_scheduler(root)
        _c, n_eps = my_assemble(root, 0)
        for ep in range(n_eps + 2):
            mine, _ = my_assemble(root, ep)
            mine = io_off(mine)
            def build(_ep=ep):
                from primaite.game.game import PrimaiteGame
                c = sched(_ep)
                io_off(c)
                return PrimaiteGame.from_config(c)
            r = inventory_case(ck, "%s episode %d" % (os.path.relpath(root, world.REPO), ep), mine, coq_in, build=build)
            if r:
                cases.append(r)
    # the variants are equal to the original up to key order, as the theorem's hypothesis demands (checked by conversion)
    bad = []
    for i, (name, vname, t0, t1) in enumerate(PAIRS):
        txt = ("From Coq Require Import ZArith List.\nImport ListNotations.\nFrom PV Require Import Model.BuildKeys Model.Build.\nOpen Scope Z_scope.\n"
               "Goal canon %s = canon %s /\\ wfb %s = true.\nProof. vm_compute. split; reflexivity. Qed.\n" % (t0, t1, t0))
        rc, out = coq_eval_raw(ck, txt, "c20_pair_%d" % i, 600)
        if rc != 0:
            bad.append("%s / %s: %s" % (name, vname, out[-300:]))
    ck.obligation("the %d reordered variants have the canonical form of their originals (hypothesis of c20_scenarios_equal_up_to_key_order_declare_the_same)" % len(PAIRS),
                  "tie", not bad, "; ".join(bad[:2]))
    del PAIRS[:]
    ck.traces += len(coq_in)
    try:
        mism = coq_cases(ck, "From PV Require Import Model.BuildKeys Model.Build.", "Build.run_case", coq_in, name="c20", chunk=6, timeout=1500)
    except RuntimeError as e:
        ck.broken("correspondence Model.Build.run_case", str(e))
        mism = None
    if mism is not None:
        for i, model_flat in mism[:20]:
            c = cases[i]
            declared = inv20.unflatten(model_flat)
            actual = [tuple(r) for r in c["rows"]]
            from collections import Counter
            missing = list((Counter(declared) - Counter(actual)).elements())
            extra = list((Counter(actual) - Counter(declared)).elements())
            what = []
            if missing:
                what.append("declared but not built: " + "; ".join(inv20.describe(r, c["it"]) for r in missing[:3]))
            if extra:
                what.append("built but not declared: " + "; ".join(inv20.describe(r, c["it"]) for r in extra[:3]))
            kinds = sorted({inv20.ROWNAME.get(r[0], str(r[0])) for r in missing + extra})
            ck.violation("built-simulation-differs-from-scenario:%s" % ",".join(kinds), "%s: %s" % (c["name"], " | ".join(what)),
                         {"scenario": c["name"], "declared_not_built": [inv20.describe(r, c["it"]) for r in missing[:10]],
                          "built_not_declared": [inv20.describe(r, c["it"]) for r in extra[:10]]})
        ck.obligation("correspondence from_config (nodes, ports, ACL positions, routes, software, options, users, files, links, agents) = Model.Build on %d scenarios" % len(coq_in),
                      "correspondence", not mism, "" if not mism else "%d scenarios differ; first: %s" % (len(mism), cases[mism[0][0]]["name"]))


def replay(ck, path):
    run(ck)
