"""Run one scenario in THIS interpreter process and print its trajectory, one JSON line per step.

usage: traj_worker.py <spec.json>
spec: {"scenario": {"kind": "family"|"file", "seed"|"path"...}, "patch": {...}, "game_seed": int, "reset_seed": int, "action_seed": int,
       "steps": int, "episodes": int, "logging": bool}
PYTHONHASHSEED and HOME are set by the caller.  Everything printed is normalised (uuids / MACs -> ordinals), so two processes
may be compared line by line."""
import json, os, random, sys, hashlib


def main():
    spec = json.load(open(sys.argv[1]))
    sys.path.insert(0, os.path.join(os.path.dirname(os.path.abspath(__file__)), ".."))
    from lib import world, family
    sc = spec["scenario"]
    if sc["kind"] == "family":
        cfg = family.generate(sc["seed"])
    else:
        cfg = world.load_cfg(sc["path"])
    for a in cfg.get("agents", []):
        if a.get("type", "").startswith("tap-") and spec.get("tap_starting_nodes"):
            a.setdefault("agent_settings", {})["starting_nodes"] = list(spec["tap_starting_nodes"])
    if spec.get("tap_rescan"):
        # a threat actor whose scan list does not hold its target and who keeps scanning: after the list is exhausted every
        # restart is a stochastic choice among the configured networks
        for a in cfg.get("agents", []):
            if a.get("type") == "tap-001":
                st = a["agent_settings"]
                st.update({"start_step": 1, "frequency": 1, "variance": 0})
                pr = st["kill_chain"]["PROPAGATE"]
                pr.update({"repeat_scan": True, "scan_attempts": 500,
                           "network_addresses": ["192.168.230.0/29"] + ["10.77.%d.0/30" % i for i in range(1, 8)]})
    cfg["game"]["seed"] = spec["game_seed"]
    on = bool(spec["logging"])
    cfg["io_settings"] = {"save_agent_actions": on, "save_step_metadata": on, "save_pcap_logs": on, "save_sys_logs": on, "save_agent_logs": on,
                          "write_sys_log_to_terminal": False, "write_agent_log_to_terminal": False, "sys_log_level": "DEBUG" if on else "WARNING",
                          "agent_log_level": "DEBUG" if on else "WARNING"}
    if spec.get("max_episode_length"):
        cfg["game"]["max_episode_length"] = spec["max_episode_length"]
    env = world.make_env(cfg)
    out = sys.stdout
    for ep in range(spec["episodes"]):
        obs, _ = env.reset(seed=spec["reset_seed"])
        rng = random.Random(spec["action_seed"])
        n = env.action_space.n
        table = {}
        out.write(json.dumps({"ep": ep, "t": -1, "obs": digest(world.norm_state(tolist(obs), table))}) + "\n")
        for t in range(spec["steps"]):
            a = rng.randrange(n) if not spec.get("idle") else 0
            obs, rew, term, trunc, info = env.step(a)
            acts = {name: world.norm_state(item_dump(h), table) for name, h in info["agent_actions"].items()}
            rec = {"ep": ep, "t": t, "a": a, "obs": digest(world.norm_state(tolist(obs), table)), "rew": repr(float(rew)),
                   "acts": {k: digest(v) for k, v in acts.items()}, "acts_brief": {k: [v.get("action"), json.dumps(v.get("parameters"), sort_keys=True, default=str)[:120], (v.get("response") or {}).get("status")] for k, v in acts.items()}}
            out.write(json.dumps(rec, sort_keys=True) + "\n")
            if trunc:
                break
        hist = {name: digest([world.norm_state(item_dump(h), {}) for h in ag.history]) for name, ag in env.game.agents.items()}
        out.write(json.dumps({"ep": ep, "t": "end", "histories": hist}, sort_keys=True) + "\n")
    out.flush()


def tolist(obs):
    if isinstance(obs, dict):
        return obs
    return [float(x) for x in obs]


def item_dump(h):
    d = h.model_dump() if hasattr(h, "model_dump") else dict(h.__dict__)
    return json.loads(json.dumps(d, default=str, sort_keys=True))


def digest(x):
    return hashlib.md5(json.dumps(x, sort_keys=True, default=str).encode()).hexdigest()[:16]


if __name__ == "__main__":
    main()
