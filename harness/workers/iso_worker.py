"""Run, in THIS interpreter process, a prelude (earlier dirty episodes of the same environment and/or another environment
instance that is built, stepped, kept alive or closed) and then print the trajectory of one measured episode of environment A.

spec: {"a": scenario spec, "a_patch": {...}, "seed": int, "reset_seed": int, "action_seed": int, "steps": int,
       "measure_episode": int,         # env.episode_counter of the measured episode (>= 1): reached by that many resets
       "dirty": bool,                  # earlier episodes are stepped with random actions and injected requests
       "other": null | {"b": scenario spec, "b_patch": {...}, "when": "before-construction" | "before-measured-reset" | "interleaved" | "closed-before"}}"""
import copy, gc, json, os, random, sys, hashlib


def load(sc, patch):
    from lib import world, family
    cfg = family.generate(sc["seed"]) if sc["kind"] == "family" else sc["path"] if sc["kind"] == "dir" else world.load_cfg(sc["path"])
    if isinstance(cfg, dict):
        apply_patch(cfg, patch or {})
    return cfg


def apply_patch(cfg, patch):
    for k, v in patch.items():
        if k == "nmne":
            if v is None:
                cfg["simulation"]["network"].pop("nmne_config", None)
            else:
                cfg["simulation"]["network"]["nmne_config"] = v
        elif k == "io":
            cfg.setdefault("io_settings", {}).update(v)
        elif k == "thresholds":
            cfg["game"]["thresholds"] = v
        elif k == "seed":
            cfg["game"]["seed"] = v
        elif k == "max_episode_length":
            cfg["game"]["max_episode_length"] = v
        elif k == "early_attacker" and v:
            for a in cfg.get("agents", []):
                if a.get("type") == "red-database-corrupting-agent":
                    a["agent_settings"].update({"start_step": 2, "frequency": 2, "variance": 0})
        elif k == "no_scripted" and v:
            # a deterministic instance: only the learning agent, with a constant reward
            keep = [a for a in cfg.get("agents", []) if a.get("type") == "proxy-agent"][:1]
            for a in keep:
                a["reward_function"] = {"reward_components": [{"type": "dummy"}]}
            cfg["agents"] = keep


def obs_plain(obs):
    if isinstance(obs, dict):
        return obs
    try:
        return [float(x) for x in obs]
    except TypeError:
        return float(obs)


def strip_volumes(x):
    """the float traffic accounting of a state is kept: frame sizes are the length of the serialised frame, whose only
    wall-clock part -- the sent / received time stamps -- is pinned by fix_clock() below, so the volumes are exact"""
    return x


def fix_clock():
    """frames are stamped with datetime.now(); a time stamp whose microseconds happen to be 0 serialises shorter.  Pin the clock
    the frame module sees so that frame sizes (and with them link loads and traffic counters) depend on the simulation only."""
    import datetime as _dt
    import primaite.simulator.network.transmission.data_link_layer as dll

    class _Fixed(_dt.datetime):
        @classmethod
        def now(cls, tz=None):
            return cls(2026, 1, 1, 12, 0, 0, 123456)
    dll.datetime = _Fixed


def mask_of(env):
    """what the environment hands a masking-aware agent now"""
    try:
        return "".join("1" if b else "0" for b in env.action_masks())
    except Exception as e:
        return "raised:%s" % type(e).__name__


def digest(x):
    return hashlib.md5(json.dumps(x, sort_keys=True, default=str).encode()).hexdigest()[:16]


def dirty_episode(env, rng, steps):
    from lib import world, obswalk
    n = env.action_space.n
    for t in range(steps):
        game = env.game
        inv = world.inventory(game.simulation)
        reqs = obswalk.extra_requests(game, rng, inv)
        orig = game.apply_agent_actions

        def patched(_o=orig, _reqs=reqs, _g=game):
            _o()
            for r in _reqs:
                try:
                    _g.simulation.apply_request(r)
                except Exception:
                    pass
        game.apply_agent_actions = patched
        try:
            _o, _r, _te, tr, _i = env.step(rng.randrange(n))
        finally:
            game.apply_agent_actions = orig
        if tr:
            break
    mask_of(env)        # a caller may ask for the mask after the last step of an episode


def ping_story(env, count):
    """the first host pings the second `count` times (ICMP echo request / reply through whatever lies between them)"""
    hosts = sorted((n for n in env.game.simulation.network.nodes.values() if n.config.type in ("computer", "server") and n.operating_state.name == "ON"),
                   key=lambda n: n.config.hostname)
    if len(hosts) < 2:
        return
    for _ in range(count):
        try:
            hosts[0].ping(str(hosts[1].network_interface[1].ip_address))
        except Exception:
            pass


def main():
    spec = json.load(open(sys.argv[1]))
    sys.path.insert(0, os.path.join(os.path.dirname(os.path.abspath(__file__)), ".."))
    from lib import world
    from primaite.session.environment import PrimaiteGymEnv
    fix_clock()
    other = spec.get("other")
    B = None

    def make_b():
        b = PrimaiteGymEnv(env_config=load(other["b"], other.get("b_patch")))
        b.reset(seed=None if other.get("quiet") and other["when"] == "interleaved" else 9)
        for _ in range(4):
            b.step(0 if other.get("quiet") else random.Random(1).randrange(b.action_space.n))
        return b
    if other and other["when"] in ("before-construction", "closed-before"):
        B = make_b()
        if other["when"] == "closed-before":
            B.close()
            B = None
            gc.collect()
    cfgA = load(spec["a"], spec.get("a_patch"))
    A = PrimaiteGymEnv(env_config=copy.deepcopy(cfgA) if isinstance(cfgA, dict) else cfgA)
    rng = random.Random(77)
    for ep in range(1, spec["measure_episode"]):
        A.reset(seed=spec["reset_seed"] if spec.get("earlier_seed") == "same" else rng.randrange(1000))
        if spec.get("pings"):
            ping_story(A, 7)
        if spec.get("dirty"):
            dirty_episode(A, rng, spec["steps"])
        for _ in range(spec.get("earlier_idle_steps", 0)):     # earlier episodes in which the scripted agents run their course undisturbed
            if A.step(0)[3]:
                break
    if other and other["when"] in ("before-measured-reset", "closed-mid-episode"):
        B = make_b()
    obs, _ = A.reset(seed=spec["reset_seed"])
    if spec.get("pings"):
        ping_story(A, 3)
    if other and other["when"] == "interleaved":
        B = make_b()
    arng = random.Random(spec["action_seed"])
    brng = random.Random(4)
    n = A.action_space.n
    table = {}
    out = sys.stdout
    out.write(json.dumps({"t": -1, "episode_counter": A.episode_counter, "state": digest(strip_volumes(world.norm_state(A.game.simulation.describe_state(), table))),
                          "obs": digest(world.norm_state(obs_plain(obs), table)), "mask": mask_of(A)}) + "\n")
    for t in range(spec["steps"]):
        if B is not None and other["when"] == "interleaved":
            quiet = other.get("quiet")          # an instance that neither draws from nor re-seeds the process-wide RNG
            B.step(0 if quiet else brng.randrange(B.action_space.n))
            if t == spec["steps"] // 2:
                B.reset(seed=None if quiet else 3)
        if B is not None and other["when"] == "closed-mid-episode" and t == spec["steps"] // 2:
            B.close()
            B = None
            gc.collect()
        a = arng.randrange(n) if not spec.get("idle") else 0
        obs, rew, term, trunc, info = A.step(a)
        st = strip_volumes(world.norm_state(A.game.simulation.describe_state(), table))
        rec = {"t": t, "a": a, "obs": digest(world.norm_state(obs_plain(obs), table)), "rew": repr(float(rew)), "state": digest(st), "mask": mask_of(A),
               "nodes": {k: digest(v) for k, v in st.get("network", {}).get("nodes", {}).items()}}
        out.write(json.dumps(rec, sort_keys=True) + "\n")
        if trunc:
            break
    out.flush()


if __name__ == "__main__":
    main()
