#!/bin/bash
# offline build of the Coq development (full .vo) from files on disk
set -e
python3 "$(dirname "$0")/tools/gen_coq.py"
cd "$(dirname "$0")/coq"
coq_makefile -f _CoqProject -o Makefile
timeout 3000 make -k -j16 || echo "setup: some targets did not build; the checks that depend on them report it"
