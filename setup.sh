#!/bin/bash
# offline build of the Coq development (full .vo) from files on disk
set -e
cd "$(dirname "$0")/coq"
coq_makefile -f _CoqProject -o Makefile
timeout 3000 make -j16
