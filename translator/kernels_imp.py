"""Kernel groups of state-changing methods translated by py2coq_imp (see its docstring for the treatments named here).
Every `erase`, `oracle`, `ident`, `const`, `ignore`, `none_as`, `truthy_some` and `strings` entry is an assumption about
code outside the translated methods and is part of the trusted base (DESIGN 13.7)."""
SW = "src/primaite/simulator/system/software.py"
SV = "src/primaite/simulator/system/services/service.py"
AP = "src/primaite/simulator/system/applications/application.py"
NODE_ON = ("oracle", "node_is_on", "bool")
SOFTWARE = {
 "enum_files": [SW, SV, AP],
 "types": {},
 "none_as": {"_fixing_countdown": -1, "install_countdown": -1},
 "methods": [
  {"path": SW, "cls": "Software", "fn": "set_health_state", "ret": "bool"},
  {"path": SW, "cls": "Software", "fn": "scan", "ret": "bool"},
  {"path": SW, "cls": "Software", "fn": "fix", "ret": "bool", "calls": {"self.set_health_state": ("fn", "Software.set_health_state")}},
  {"path": SW, "cls": "Software", "fn": "_update_fix_status", "ret": "unit", "calls": {"self.set_health_state": ("fn", "Software.set_health_state")}},
  {"path": SW, "cls": "Software", "fn": "apply_timestep", "ret": "unit", "drop_params": ["timestep"],
   "calls": {"super().apply_timestep": ("erase",), "self._update_fix_status": ("fn", "Software._update_fix_status")}},
  {"path": SV, "cls": "Service", "fn": "stop", "ret": "bool"},
  {"path": SV, "cls": "Service", "fn": "start", "ret": "bool", "calls": {"super()._can_perform_action": NODE_ON, "self.set_health_state": ("fn", "Software.set_health_state")}},
  {"path": SV, "cls": "Service", "fn": "pause", "ret": "bool"},
  {"path": SV, "cls": "Service", "fn": "resume", "ret": "bool"},
  {"path": SV, "cls": "Service", "fn": "restart", "ret": "bool"},
  {"path": SV, "cls": "Service", "fn": "disable", "ret": "bool"},
  {"path": SV, "cls": "Service", "fn": "enable", "ret": "bool"},
  {"path": SV, "cls": "Service", "fn": "apply_timestep", "ret": "unit", "drop_params": ["timestep"], "calls": {"super().apply_timestep": ("fn", "Software.apply_timestep")}},
  {"path": AP, "cls": "Application", "fn": "run", "ret": "unit", "calls": {"super()._can_perform_action": NODE_ON, "self.set_health_state": ("fn", "Software.set_health_state")}},
  {"path": AP, "cls": "Application", "fn": "close", "ret": "bool"},
  {"path": AP, "cls": "Application", "fn": "install", "ret": "unit", "calls": {"super().install": ("erase",)}},
  {"path": AP, "cls": "Application", "fn": "apply_timestep", "ret": "unit", "drop_params": ["timestep"], "calls": {"super().apply_timestep": ("fn", "Software.apply_timestep")}},
 ]}

AT = "src/primaite/game/agent/scripted_agents/abstract_tap.py"
T1 = "src/primaite/game/agent/scripted_agents/TAP001.py"
T3 = "src/primaite/game/agent/scripted_agents/TAP003.py"
CHAINS = ["MobileMalwareKillChain", "InsiderKillChain"]
KILLCHAIN = {
 "enum_files": [AT, T1, T3],
 "types": {"config_agent_settings_repeat_kill_chain_stages": "bool", "config_agent_settings_repeat_kill_chain": "bool", "actions_concluded": "bool"},
 "attr_enum": {"selected_kill_chain": ["BaseKillChain"] + CHAINS},
 "strings": {"success": 1, "failure": 2, "unreachable": 3, "pending": 4},
 "ignore": ["chosen_action"],
 "methods": [
  {"path": AT, "cls": "AbstractTAP", "fn": "_tap_return_handler", "ret": "bool", "drop_params": [],
   "exprs": {"len(self.history)": ("history_length", "Z"), "self.history[timestep].response.status": ("response_status", "Z")}},
  {"path": AT, "cls": "AbstractTAP", "fn": "_tap_start", "ret": "unit", "drop_params": ["tap_kill_chain"],
   "calls": {"tap_kill_chain.initial_stage": ("const", CHAINS), "self.selected_kill_chain": ("ident",)}},
  {"path": AT, "cls": "AbstractTAP", "fn": "_tap_outcome_handler", "ret": "unit", "drop_params": ["selected_kill_chain_class"],
   "calls": {"selected_kill_chain_class.initial_stage": ("const", CHAINS)}},
  {"path": T1, "cls": "TAP001", "fn": "_progress_kill_chain", "ret": "unit", "calls": {"self.selected_kill_chain": ("ident",)}},
  {"path": T3, "cls": "TAP003", "fn": "_progress_kill_chain", "ret": "unit", "calls": {"self.selected_kill_chain": ("ident",)}},
 ]}

FI = "src/primaite/simulator/file_system/file.py"
FA = "src/primaite/simulator/file_system/file_system_item_abc.py"
FILE = {
 "enum_files": [FA],
 "types": {"deleted": "bool"},
 "methods": [
  {"path": FI, "cls": "File", "fn": "scan", "ret": "bool"},
  {"path": FI, "cls": "File", "fn": "repair", "ret": "bool"},
  {"path": FI, "cls": "File", "fn": "corrupt", "ret": "bool"},
  {"path": FI, "cls": "File", "fn": "restore", "ret": "bool"},
  {"path": FI, "cls": "File", "fn": "delete", "ret": "bool"},
  {"path": FI, "cls": "File", "fn": "pre_timestep", "ret": "unit", "drop_params": ["timestep"], "calls": {"super().pre_timestep": ("erase",)}},
 ]}

RT = "src/primaite/simulator/network/hardware/nodes/network/router.py"
ACLRULE = {
 "imports": ["From PV Require Gen.GenAcl."],
 "enum_files": [RT],
 "types": {"protocol": "optZ", "src_ip_address": "optZ", "src_wildcard_mask": "optZ", "dst_ip_address": "optZ", "dst_wildcard_mask": "optZ",
           "src_port": "optZ", "dst_port": "optZ", "frame_tcp": "bool", "frame_udp": "bool"},
 "methods": [
  {"path": RT, "cls": "ACLRule", "fn": "permit_frame_check", "ret": "bool*bool", "obj_params": ["frame"],
   "truthy_some": ["protocol", "src_ip_address", "src_wildcard_mask", "dst_ip_address", "dst_wildcard_mask"],
   "calls": {"ip_matches_masked_range": ("pure", "GenAcl.ip_matches_masked_range", ["ip_to_check", "base_ip", "wildcard_mask"], ["Z", "Z", "Z"], "bool")}},
 ]}


# ---- groups added with the event / option / dictionary extensions of the translator ----
BASE = "src/primaite/simulator/network/hardware/base.py"
NOS = "src/primaite/simulator/network/hardware/node_operating_state.py"
E_STARTUP, E_SHUTDOWN, E_ENABLE, E_DISABLE, E_NIC_TICK = 1, 2, 3, 4, 5
NICS = "self.network_interfaces.values()"
POWER = {
 "enum_files": [NOS],
 "types": {"config_is_resetting": "bool", "enabled": "bool"},
 "attr_enum": {"operating_state": ["NodeOperatingState"]},
 "ignore": ["pcap"],
 "methods": [
  {"path": BASE, "cls": "WiredNetworkInterface", "fn": "enable", "ret": "bool",
   "exprs": {"self._connected_node": ("has_node", "bool"), "self._connected_link": ("has_link", "bool")},
   "calls": {"self._connected_link.endpoint_up": ("erase",)}},
  {"path": BASE, "cls": "WiredNetworkInterface", "fn": "disable", "ret": "bool",
   "exprs": {"self._connected_node": ("has_node", "bool"), "self._connected_link": ("has_link", "bool")},
   "calls": {"self._connected_link.endpoint_down": ("erase",)}},
  {"path": BASE, "cls": "Node", "fn": "power_on", "ret": "bool",
   "calls": {"self._start_up_actions": ("emit", E_STARTUP, ["operating_state"]),
             "for:%s:network_interface.enable()" % NICS: ("emit", E_ENABLE, ["operating_state"])}},
  {"path": BASE, "cls": "Node", "fn": "power_off", "ret": "bool",
   "calls": {"self._shut_down_actions": ("emit", E_SHUTDOWN, []),
             "for:%s:network_interface.disable()" % NICS: ("emit", E_DISABLE, []),
             "self.power_on": ("fn", "Node.power_on")}},
  {"path": BASE, "cls": "Node", "fn": "reset", "ret": "bool", "calls": {"self.power_off": ("fn", "Node.power_off")}},
  {"path": BASE, "cls": "Node", "fn": "apply_timestep", "name": "Node_apply_timestep_power", "ret": "unit", "drop_params": ["timestep"],
   "until_if": "self.operating_state == NodeOperatingState.ON",
   "calls": {"super().apply_timestep": ("erase",),
             "for:%s:network_interface.apply_timestep(timestep=timestep)" % NICS: ("erase",),
             "self._start_up_actions": ("emit", E_STARTUP, ["operating_state"]),
             "for:%s:network_interface.enable()" % NICS: ("emit", E_ENABLE, ["operating_state"]),
             "self._shut_down_actions": ("emit", E_SHUTDOWN, []),
             "self.power_on": ("fn", "Node.power_on")}},
 ]}

LINKTX = {
 "enum_files": [], "floats_exact": True,
 "types": {"is_up": "bool"},
 "methods": [
  {"path": BASE, "cls": "Link", "fn": "transmit_frame", "ret": "bool", "obj_params": ["frame"],
   "calls": {"receiver.receive_frame": ("havoc", "delivered", 1, ["current_load"], {"current_load": "load_after_delivery"})}},
  {"path": BASE, "cls": "Link", "fn": "pre_timestep", "ret": "unit", "drop_params": ["timestep"], "calls": {"super().pre_timestep": ("erase",)}},
  {"path": BASE, "cls": "Link", "fn": "endpoint_down", "ret": "unit"},
  {"path": BASE, "cls": "Link", "fn": "endpoint_up", "ret": "unit"},
 ]}

FO = "src/primaite/simulator/file_system/folder.py"
FA = "src/primaite/simulator/file_system/file_system_item_abc.py"
F_SCAN, F_REPAIR, F_CORRUPT, F_RESTORE_LIVE, F_RESTORE_DELETED = 1, 2, 3, 4, 5
def _loop(body):
    return "for:self.files:file = self.get_file_by_id(file_uuid=file_id); " + body
FOLDER = {
 "enum_files": [FA], "types": {"deleted": "bool", "scanned_this_step": "bool"},
 "methods": [
  {"path": FO, "cls": "Folder", "fn": "scan", "ret": "bool", "param_types": {"instant_scan": "bool"},
   "calls": {_loop("file.scan(); if file.visible_health_status == FileSystemItemHealthStatus.CORRUPT:\n    self.visible_health_status = FileSystemItemHealthStatus.CORRUPT"):
             ("emit", F_SCAN, [], {"visible_health_status": "visible_after_instant_scan"})}},
  {"path": FO, "cls": "Folder", "fn": "repair", "ret": "bool", "calls": {_loop("file.repair()"): ("emit", F_REPAIR, [])}},
  {"path": FO, "cls": "Folder", "fn": "corrupt", "ret": "bool", "calls": {_loop("file.corrupt()"): ("emit", F_CORRUPT, [])}},
  {"path": FO, "cls": "Folder", "fn": "restore", "ret": "bool"},
  {"path": FO, "cls": "Folder", "fn": "_scan_timestep", "ret": "unit",
   "exprs": {"FileSystemItemHealthStatus(max([f.health_status.value for f in self.files.values()] or [0]))": ("worst_file_health", "Z")},
   "calls": {_loop("file.scan()"): ("emit", F_SCAN, [])}},
  {"path": FO, "cls": "Folder", "fn": "_restoring_timestep", "ret": "unit", "erase_locals": ["deleted_files"],
   "calls": {"for:self.files.items():self.restore_file(file_name=file.name)": ("emit", F_RESTORE_LIVE, []),
             "for:deleted_files.items():self.restore_file(file_name=file.name)": ("emit", F_RESTORE_DELETED, [])}},
 ]}

CORE = "src/primaite/simulator/core.py"
_REQ = {"exprs": {"len(request)": ("request_length", "Z"), "isinstance(request_key, Hashable)": ("key_hashable", "bool"),
                  "request_key not in self.request_types": ("key_unknown", "bool"),
                  "isinstance(request_type.func, RequestManager)": ("func_is_manager", "bool")},
        "erase_locals": ["request_key", "request_options", "request_type", "msg"], "drop_params": ["request", "context"]}
REQUEST = {
 "enum_files": [], "strings": {"success": 1, "failure": 2, "unreachable": 3, "pending": 0},
 "methods": [
  dict(_REQ, path=CORE, cls="RequestManager", fn="__call__", name="RequestManager_call", ret="Z",
       calls={"RequestResponse": ("field", "status"), "request_type.validator": ("oracle", "validator_allows", "bool"),
              "request_type.func": ("oracle", "handler_status", "Z")}),
  dict(_REQ, path=CORE, cls="RequestManager", fn="check_valid", ret="bool",
       calls={"request_type.validator": ("oracle", "validator_allows", "bool"),
              "request_type.func.check_valid": ("oracle", "sub_check_valid", "bool")}),
 ]}

SW = "src/primaite/simulator/system/software.py"
SV = "src/primaite/simulator/system/services/service.py"
DB = "src/primaite/simulator/system/services/database/database_service.py"
DATABASE = {
 "enum_files": [SW, SV, "src/primaite/simulator/file_system/file_system_item_abc.py"],
 "strings": {"SELECT": 1, "DELETE": 2, "ENCRYPT": 3, "INSERT": 4, "SELECT * FROM pg_stat_activity": 5},
 "methods": [
  {"path": SW, "cls": "Software", "fn": "set_health_state", "ret": "bool"},
  {"path": SW, "cls": "IOSoftware", "fn": "add_connection", "ret": "bool", "drop_params": ["connection_id", "session_id"],
   "erase_locals": ["session_details"],
   "exprs": {"len(self._connections)": ("connection_count", "Z"), "self._connections.get(connection_id)": ("connection_exists", "bool")},
   "calls": {"self.set_health_state": ("fn", "Software.set_health_state"), "setitem:self._connections": ("emit", 1, [])}},
  {"path": DB, "cls": "DatabaseService", "fn": "_process_connect", "ret": "Z*bool", "ret_fields": ["status_code", "response"],
   "drop_params": ["src_ip", "connection_request_id", "password", "session_id"],
   "exprs": {"self.config.db_password == password": ("password_matches", "bool")},
   "calls": {"self._generate_connection_id": ("oracle", "new_connection_id", "Z"), "self.add_connection": ("fn", "IOSoftware.add_connection")}},
  {"path": DB, "cls": "DatabaseService", "fn": "_process_sql", "ret": "Z", "ret_fields": ["status_code"],
   "drop_params": ["query_id", "connection_id"], "local_objects": ["database_folder"],
   "exprs": {"self.db_file": ("has_db_file", "bool")}},
 ]}

# ---- groups that use the fold treatment of loops ----
RT = "src/primaite/simulator/network/hardware/nodes/network/router.py"
ROUTE = {
 "enum_files": [RT],
 "types": {"default_route": "optZ"},
 "methods": [
  {"path": RT, "cls": "RouteTable", "fn": "find_best_route", "ret": "optZ", "drop_params": ["destination_ip"],
   "truthy_some": ["l_best_route", "default_route"],
   "erase_locals": ["route_network", "destination_ip"],
   "exprs": {"isinstance(destination_ip, IPv4Address)": ("destination_is_address", "bool")},
   "folds": {"self.routes": {"items": "routes_items",
                             "fields": {"destination_ip in route_network": ("route_covers", "bool"), "route_network.prefixlen": ("route_prefixlen", "Z")}}}},
 ]}

ACLLIST = {
 "enum_files": [RT],
 "types": {},
 "methods": [
  {"path": RT, "cls": "AccessControlList", "fn": "is_permitted", "ret": "bool*optZ", "drop_params": ["frame"],
   "truthy_some": ["l_rule"],
   "stmts": {"rule.match_count += 1": ("emit", 1, [])},
   "folds": {"self._acl": {"items": "acl_items", "optional": True,
                           "fields": {"_rule.permit_frame_check(frame)": [("rule_permits", "bool"), ("rule_matches", "bool")]}}}},
 ]}

RA = "src/primaite/game/agent/scripted_agents/random_agent.py"
DM = "src/primaite/game/agent/scripted_agents/data_manipulation_bot.py"
_ACT = {"('do-nothing', {})": ("false", "bool"), "default": ("true", "bool")}
PERIODIC = {
 "enum_files": [],
 "methods": [
  {"path": RA, "cls": "PeriodicAgent", "fn": "_set_next_execution_timestep", "ret": "unit",
   "exprs": {"random.randint(-variance, variance)": ("draw", "Z")}},
  {"path": RA, "cls": "PeriodicAgent", "fn": "get_action", "ret": "bool", "drop_params": ["obs"], "returns": _ACT,
   "calls": {"self._set_next_execution_timestep": ("fn", "PeriodicAgent._set_next_execution_timestep")}},
  {"path": DM, "cls": "DataManipulationAgent", "fn": "get_action", "ret": "bool", "drop_params": ["obs"], "returns": _ACT,
   "calls": {"self._set_next_execution_timestep": ("fn", "PeriodicAgent._set_next_execution_timestep")}},
 ]}

# ---- pre-timestep chain ----
BASE = "src/primaite/simulator/network/hardware/base.py"
FS = "src/primaite/simulator/file_system/file_system.py"
PRETICK = {
 "enum_files": [],
 "methods": [
  {"path": FS, "cls": "FileSystem", "fn": "pre_timestep", "ret": "unit", "drop_params": ["timestep"],
   "calls": {"super().pre_timestep": ("erase",), "for:self.folders.values():folder.pre_timestep(timestep)": ("emit", 1, [])}},
  {"path": BASE, "cls": "Node", "fn": "pre_timestep", "ret": "unit", "drop_params": ["timestep"],
   "calls": {"super().pre_timestep": ("erase",),
             "for:self.network_interfaces.values():network_interface.pre_timestep(timestep=timestep)": ("emit", 1, []),
             "for:self.processes:self.processes[process_id].pre_timestep(timestep=timestep)": ("emit", 2, []),
             "for:self.services:self.services[service_id].pre_timestep(timestep=timestep)": ("emit", 3, []),
             "for:self.applications:self.applications[application_id].pre_timestep(timestep=timestep)": ("emit", 4, []),
             "self.file_system.pre_timestep": ("emit", 5, [])}},
 ]}

# ---- NMNE part of the interface observation ----
NO = "src/primaite/game/agent/observations/nic_observations.py"
NMNEOBS = {
 "enum_files": [], "imports": ["From PV Require Gen.GenObs."],
 "methods": [
  {"path": NO, "cls": "NICObservation", "fn": "observe", "name": "NICObservation_observe_nmne", "ret": "unit", "drop_params": ["state"],
   "only_if": "self.include_nmne",
   "stmts": {"obs.update({'NMNE': {}})": ("erase",)},
   "erase_locals": ["direction_dict", "inbound_keywords", "outbound_keywords"],
   "exprs": {"inbound_keywords.get('*', 0)": ("inbound_count", "Z"), "outbound_keywords.get('*', 0)": ("outbound_count", "Z")},
   "setitem_attrs": {"obs['NMNE']['inbound']": "obs_nmne_inbound", "obs['NMNE']['outbound']": "obs_nmne_outbound"},
   "calls": {"self._categorise_mne_count": ("pure", "GenObs.categorise_mne_count", ["nmne_count"], ["Z"], "Z",
                                            ["high_nmne_threshold", "med_nmne_threshold", "low_nmne_threshold"])}},
 ]}

# ---- whole-node scan ----
BASE = "src/primaite/simulator/network/hardware/base.py"
NOS = "src/primaite/simulator/network/hardware/node_operating_state.py"
def _l(coll, body):
    return "for:self.%s:self.%s[%s].%s" % (coll, coll, {"processes": "process_id", "services": "service_id", "applications": "application_id"}[coll], body)
NODESCAN = {
 "enum_files": [NOS],
 "methods": [
  {"path": BASE, "cls": "Node", "fn": "scan", "ret": "bool"},
  {"path": BASE, "cls": "Node", "fn": "apply_timestep", "name": "Node_apply_timestep_while_on", "ret": "unit", "drop_params": ["timestep"],
   "only_if": "self.operating_state == NodeOperatingState.ON",
   "calls": {_l("processes", "scan()"): ("emit", 1, []), _l("services", "scan()"): ("emit", 2, []), _l("applications", "scan()"): ("emit", 3, []),
             "self.file_system.scan": ("emit", 4, []),
             _l("processes", "reveal_to_red()"): ("emit", 5, []), _l("services", "reveal_to_red()"): ("emit", 6, []),
             _l("applications", "reveal_to_red()"): ("emit", 7, []), "self.file_system.reveal_to_red": ("emit", 8, []),
             _l("processes", "apply_timestep(timestep=timestep)"): ("emit", 9, []), _l("services", "apply_timestep(timestep=timestep)"): ("emit", 10, []),
             _l("applications", "apply_timestep(timestep=timestep)"): ("emit", 11, []), "self.file_system.apply_timestep": ("emit", 12, [])}},
 ]}

# ---- accounts and sessions ----
BASE = "src/primaite/simulator/network/hardware/base.py"
TERM = "src/primaite/simulator/system/services/terminal/terminal.py"
SESSION = {
 "enum_files": [],
 "methods": [
  {"path": BASE, "cls": "UserManager", "fn": "authenticate_user", "ret": "bool", "drop_params": ["username", "password"],
   "erase_locals": ["user"], "returns": {"user": ("true", "bool"), "None": ("false", "bool")},
   "calls": {"self._can_perform_action": ("oracle", "can_act", "bool")},
   "exprs": {"user": ("user_exists", "bool"), "user.disabled": ("user_disabled", "bool"), "user.password == password": ("password_matches", "bool")}},
  {"path": BASE, "cls": "UserSessionManager", "fn": "remote_session_limit_reached", "ret": "bool",
   "exprs": {"len(self.remote_sessions)": ("remote_session_count", "Z")}},
  {"path": TERM, "cls": "Terminal", "fn": "_check_client_connection", "ret": "bool", "drop_params": ["connection_id"],
   "calls": {"self.parent.user_session_manager.validate_remote_session_uuid": ("oracle", "session_is_live", "bool"), "self._disconnect": ("emit", 1, [])},
   "exprs": {"connection_id in self._connections": ("connection_is_known", "bool")}},
 ]}

# ---- reward update ----
RW = "src/primaite/game/agent/rewards.py"
REWARD = {
 "enum_files": [], "floats_exact": True,
 "methods": [
  {"path": RW, "cls": "RewardFunction", "fn": "update", "ret": "Z", "drop_params": ["state", "last_action_response"],
   "erase_locals": ["comp"],
   "folds": {"self.reward_components": {"items": "component_items",
             "fields": {"comp_and_weight[1]": ("weight", "Z"),
                        "comp.calculate(state=state, last_action_response=last_action_response)": ("component_value", "Z")}}}},
 ]}

# ---- episode schedule ----
ES = "src/primaite/session/episode_schedule.py"
SCHEDULE = {
 "enum_files": [], "types": {"exceeded_episode_list": "bool"},
 "methods": [
  {"path": ES, "cls": "EpisodeListScheduler", "fn": "__call__", "name": "EpisodeListScheduler_episode_index", "ret": "Z",
   "until_stmt": "filenames_to_join =", "result_expr": "episode_num",
   "exprs": {"len(self.schedule)": ("schedule_length", "Z")}},
 ]}

GROUPS = {
 "software": dict(SOFTWARE, gen="Gen/GenSoftware.v", eq="Proofs/GenEqSoftware.vo"),
 "killchain": dict(KILLCHAIN, gen="Gen/GenKillChain.v", eq="Proofs/GenEqKillChain.vo"),
 "file": dict(FILE, gen="Gen/GenFile.v", eq="Proofs/GenEqFile.vo"),
 "aclrule": dict(ACLRULE, gen="Gen/GenAclRule.v", eq="Proofs/GenEqAclRule.vo"),
 "nodepower": dict(POWER, gen="Gen/GenPower.v", eq="Proofs/GenEqPower.vo"),
 "linktx": dict(LINKTX, gen="Gen/GenLinkTx.v", eq="Proofs/GenEqLinkTx.vo"),
 "folder": dict(FOLDER, gen="Gen/GenFolder.v", eq="Proofs/GenEqFolder.vo"),
 "request": dict(REQUEST, gen="Gen/GenRequest.v", eq="Proofs/GenEqRequest.vo"),
 "dbservice": dict(DATABASE, gen="Gen/GenDatabase.v", eq="Proofs/GenEqDatabase.vo"),
 "routetable": dict(ROUTE, gen="Gen/GenRoute.v", eq="Proofs/GenEqRoute.vo"),
 "acllist": dict(ACLLIST, gen="Gen/GenAclList.v", eq="Proofs/GenEqAclList.vo"),
 "periodic": dict(PERIODIC, gen="Gen/GenPeriodic.v", eq="Proofs/GenEqPeriodic.vo"),
 "pretick": dict(PRETICK, gen="Gen/GenPreTick.v", eq="Proofs/GenEqPreTick.vo"),
 "nmneobs": dict(NMNEOBS, gen="Gen/GenNmneObs.v", eq="Proofs/GenEqNmneObs.vo"),
 "nodescan": dict(NODESCAN, gen="Gen/GenNodeScan.v", eq="Proofs/GenEqNodeScan.vo"),
 "sessiongate": dict(SESSION, gen="Gen/GenSession.v", eq="Proofs/GenEqSession.vo"),
 "rewardsum": dict(REWARD, gen="Gen/GenReward.v", eq="Proofs/GenEqReward.vo"),
 "schedule": dict(SCHEDULE, gen="Gen/GenSchedule.v", eq="Proofs/GenEqSchedule.vo"),
}
for _g in GROUPS.values():
    _g["functions"] = ["%s.%s" % (m["cls"], m["fn"]) for m in _g["methods"]]
