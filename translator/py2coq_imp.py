"""py2coq_imp: fail-closed Python-ast -> Gallina translator for small state-changing methods.

A method is translated to a Gallina function over the attributes it reads (binders, in order of first use), its own
parameters and the "oracles" configured for it; it returns  (result, (w1, ..., wn))  where w1..wn are the final values of
the attributes the method (or a method it calls) assigns, in order of first assignment (just `result` when it assigns
none).  State is threaded by let-shadowing: `self.x = e` becomes `let x := e in ...`, so the text of a continuation does
not depend on where it is pasted, and an `if` simply carries the rest of the block into both branches.

Supported: `self.a = e`, `self.a -= e` / `+=`, local names, `if/elif/else`, `return [e]`, docstrings, logging calls (erased),
integers, booleans, enum members (values read from the enum classes in the source), comparison by `== != is is not < <= > >=`,
`in [..]` / `in (..)` / `not in`, `and or not`, `+ - *`, `x == True/False` on booleans, attribute chains rooted at `self`
that are only read (one binder each), calls to other methods of the same kernel group (`self.m(..)`, `super().m(..)`, state
threaded through the callee's result), and per-method configured treatments of other calls / expressions:
  erase   -- a call statement with no effect on the modelled attributes (named in the trusted base)
  oracle  -- an expression replaced by a fresh parameter of the given type
  ident   -- a call that returns its single argument unchanged (an enum constructor applied to an int)
  const   -- a call replaced by a constant, after a source-level check that it is one (enum `initial_stage`)
  field   -- a constructor call represented by one of its keyword arguments (RequestResponse(status=...) by its status)
  emit    -- a call statement (or a `for x in self.coll.values(): x.m()` loop, keyed "for:<iterable>:<body>") whose effect lies
             outside the translated attributes: it is recorded, in order, as an event (tag, values of the listed attributes at
             that moment) appended to the extra result `events`; the Gen = Model theorem interprets the events on the model
  fold    -- `for x in <iterable>:` named under `folds`: the iterable becomes a list of records holding what the body reads of
             each element (attributes of x, configured element-level expressions, x itself as an identifier, its presence when
             elements may be None); the locals / attributes the body assigns are the accumulator of a `fold_left`; `continue`
             returns the accumulator, `break` sets a carried flag that makes the remaining iterations no-ops
Assignments to attributes listed under `ignore` are erased (they must not be read).  With `until_if` only the statements
before the first top-level `if` whose test has the given source text are translated (the rest is modelled elsewhere).
Everything else is refused."""
import ast, os


class Refuse(Exception):
    pass


ENUM_INT = {}     # enum name -> True for IntEnum (truth value = value != 0), False for Enum (members always truthy)


def load_enums(repo, files):
    """every class deriving from Enum / IntEnum in the listed files: name -> {member: int}"""
    out = {}
    for path in files:
        tree = ast.parse(open(os.path.join(repo, path)).read())
        for n in ast.walk(tree):
            if isinstance(n, ast.ClassDef) and any((isinstance(b, ast.Name) and b.id in ("Enum", "IntEnum")) for b in n.bases):
                members = {}
                for s in n.body:
                    if isinstance(s, ast.Assign) and len(s.targets) == 1 and isinstance(s.targets[0], ast.Name) and \
                            isinstance(s.value, ast.Constant) and isinstance(s.value.value, int) and not isinstance(s.value.value, bool):
                        members[s.targets[0].id] = s.value.value
                if n.name in out and out[n.name] != members:
                    raise Refuse("enum %s defined twice with different members" % n.name)
                out[n.name] = members
                ENUM_INT[n.name] = any(isinstance(b, ast.Name) and b.id == "IntEnum" for b in n.bases)
    return out


def find_method(repo, path, cls, fn):
    tree = ast.parse(open(os.path.join(repo, path)).read())
    c = [n for n in tree.body if isinstance(n, ast.ClassDef) and n.name == cls]
    if len(c) != 1:
        raise Refuse("class %s not found exactly once in %s" % (cls, path))
    f = [n for n in c[0].body if isinstance(n, ast.FunctionDef) and n.name == fn]
    if len(f) != 1:
        raise Refuse("method %s.%s not found exactly once" % (cls, fn))
    return f[0]


def cname(a):
    return a.lstrip("_")


def chain(e, roots=("self",)):
    """self.a.b.c -> ['a','b','c'] (frame.ip.x -> ['frame','ip','x'] for an object parameter); None when not such a chain"""
    parts = []
    while isinstance(e, ast.Attribute):
        parts.append(e.attr)
        e = e.value
    if parts and isinstance(e, ast.Name) and e.id in roots:
        return ([] if e.id == "self" else [e.id]) + list(reversed(parts))
    return None


def call_key(c):
    """'self.m' / 'super().m' / dotted text of the callee"""
    f = c.func
    if isinstance(f, ast.Attribute):
        if isinstance(f.value, ast.Name) and f.value.id == "self":
            return "self." + f.attr
        if isinstance(f.value, ast.Call) and isinstance(f.value.func, ast.Name) and f.value.func.id == "super" and not f.value.args:
            return "super()." + f.attr
    return ast.unparse(f)


class Fn:
    """a translated method: name, binders [(name, type)], params, writes [name], rtype, text"""


class Group:
    def __init__(self, repo, spec):
        self.repo, self.spec = repo, spec
        self.enums = load_enums(repo, spec.get("enum_files", []))
        self.types = spec.get("types", {})
        self.none_as = spec.get("none_as", {})
        self.ignore = set(spec.get("ignore", []))
        self.attr_enum = spec.get("attr_enum", {})
        self.strings = spec.get("strings", {})
        self.done = {}           # key 'Class.method' -> Fn

    def enum_value(self, enum_names, member):
        vals = {self.enums[n][member] for n in enum_names if n in self.enums and member in self.enums[n]}
        if len(vals) != 1:
            raise Refuse("enum member %s of %s does not have exactly one value (%s)" % (member, enum_names, sorted(vals)))
        return vals.pop()

    def translate(self, m):
        f = find_method(self.repo, m["path"], m["cls"], m["fn"])
        t = TrM(self, m, f)
        fn = t.run()
        self.done["%s.%s" % (m["cls"], m["fn"])] = fn
        return fn


class TrM:
    def __init__(self, g, m, f):
        self.g, self.m, self.f = g, m, f
        if f.args.vararg or f.args.kwonlyargs or any(d is not None for d in f.args.kw_defaults):
            raise Refuse("unsupported parameter kinds in %s" % f.name)
        self.params = [a.arg for a in f.args.args if a.arg != "self"]
        if f.args.kwarg:
            pass        # **kwargs accepted and never read (reads are refused as free names)
        self.ptypes = m.get("param_types", {})
        self.drop_params = set(m.get("drop_params", []))      # parameters that must not be read (passed on to erased calls only)
        self.calls = m.get("calls", {})
        self.exprs = m.get("exprs", {})
        self.rtype = m["ret"]
        self.obj_params = set(m.get("obj_params", [])) | set(m.get("local_objects", []))   # parameters / locals that are objects: only their attributes are read or assigned
        self.truthy_some = set(m.get("truthy_some", []))      # optional values whose truth value is "is not None" (named assumption)
        self.refined = {}                                     # name -> "Z": an optional known to be Some in this branch
        self.loop = None                                      # the fold being translated, if any
        self.binders = []        # [(name, type)] in order of first use
        self.writes = []
        self.locals = {}
        self.locals_seen = set()

    # -- bookkeeping ----------------------------------------------------------------------------------------------
    def field(self, nm, ty):
        """a component of the element record of the fold being translated"""
        fl = self.loop["fields"]
        for (n, t) in fl:
            if n == nm:
                if t != ty:
                    raise Refuse("element field %s used at two types" % nm)
                return nm, ty
        fl.append((nm, ty))
        return nm, ty

    def binder(self, nm, ty):
        for (n, t) in self.binders:
            if n == nm:
                if t != ty:
                    raise Refuse("attribute %s used at two types" % nm)
                return
        self.binders.append((nm, ty))

    def attr_type(self, nm):
        if nm == "events":
            return "events"
        return self.g.types.get(nm, "Z")

    @staticmethod
    def for_key(n):
        body = [b for b in n.body if not (isinstance(b, ast.Expr) and isinstance(b.value, ast.Constant))]
        return "for:%s:%s" % (ast.unparse(n.iter), "; ".join(ast.unparse(b) for b in body))

    def emit(self, tr, rest_thunk):
        """("emit", tag, [attributes whose current values are recorded])"""
        vals = []
        for a in (tr[2] if len(tr) > 2 else []):
            ty = self.attr_type(a)
            if ty != "Z":
                raise Refuse("emit of a non-integer attribute %s" % a)
            self.binder(a, ty)
            vals.append(a)
        self.binder("events", "events")
        lets = ""
        for a, pn in (tr[3] if len(tr) > 3 else {}).items():
            # the recorded effect may also assign this attribute: it continues with an unknown value (a fresh parameter)
            self.binder(pn, self.attr_type(a))
            self.binder(a, self.attr_type(a))
            lets += "let %s := %s in\n  " % (a, pn)
        return "let events := (events ++ [(%d, [%s])])%%list in\n  %s%s" % (tr[1], "; ".join(vals), lets, rest_thunk())

    def prepass(self, stmts):
        """attributes assigned by this method or by the methods it calls, in order"""
        for s in stmts:
            for n in ast.walk(s):
                tg = []
                if isinstance(n, ast.Assign):
                    tg = n.targets
                elif isinstance(n, ast.AugAssign):
                    tg = [n.target]
                for t in tg:
                    if isinstance(t, ast.Subscript) and ast.unparse(t) in self.m.get("setitem_attrs", {}) and self.m["setitem_attrs"][ast.unparse(t)] not in self.writes:
                        self.writes.append(self.m["setitem_attrs"][ast.unparse(t)])
                    if isinstance(t, ast.Subscript) and self.calls.get("setitem:" + ast.unparse(t.value), [None])[0] == "emit" and "events" not in self.writes:
                        self.writes.append("events")
                    ch = chain(t, ("self",) + tuple(self.m.get("local_objects", [])))
                    if ch is not None:
                        nm = "_".join(cname(c) for c in ch)
                        if ch[0] not in self.g.ignore and nm not in self.writes:
                            self.writes.append(nm)
                if isinstance(n, ast.stmt) and self.m.get("stmts", {}).get(ast.unparse(n), [None])[0] == "emit" and "events" not in self.writes:
                    self.writes.append("events")
                if isinstance(n, ast.For) and self.calls.get(self.for_key(n), [None])[0] == "emit":
                    if "events" not in self.writes:
                        self.writes.append("events")
                    trf = self.calls[self.for_key(n)]
                    for a in (trf[3] if len(trf) > 3 else {}):
                        if a not in self.writes:
                            self.writes.append(a)
                if isinstance(n, ast.Call):
                    k = call_key(n)
                    tr = self.calls.get(k)
                    if tr and tr[0] in ("emit", "havoc") and "events" not in self.writes:
                        self.writes.append("events")
                    if tr and tr[0] == "havoc":
                        for a in tr[4]:
                            if a not in self.writes:
                                self.writes.append(a)
                    if tr and tr[0] == "fn":
                        callee = self.g.done.get(tr[1])
                        if callee is None:
                            raise Refuse("callee %s not translated before %s" % (tr[1], self.f.name))
                        for w in callee.writes:
                            if w not in self.writes:
                                self.writes.append(w)

    # -- expressions ----------------------------------------------------------------------------------------------
    def expr(self, e):
        src = ast.unparse(e)
        if self.loop is not None:
            lf = self.loop["cfg"].get("fields", {})
            if src in lf and not isinstance(lf[src], list):
                return self.field(*lf[src])
            if isinstance(e, ast.Name) and e.id == self.loop["var"]:
                return self.field(cname(self.loop["var"]) + "_id", "Z")        # the element itself, as an identifier
            if isinstance(e, ast.Attribute):
                chl = chain(e, (self.loop["var"],))
                if chl is not None:
                    nm = "_".join(cname(c) for c in chl)
                    return self.field(nm, self.attr_type(nm))
        if isinstance(e, ast.Call) and isinstance(e.func, ast.Name) and e.func.id == "float" and len(e.args) == 1 and \
                isinstance(e.args[0], ast.Constant) and e.args[0].value == "inf":
            return "(@None Z)", "infZ"          # +infinity: None of an option whose Some values are finite
        if src in self.exprs:
            nm, ty = self.exprs[src]
            self.binder(nm, ty)
            return nm, ty
        if isinstance(e, ast.Constant) and e.value is None:
            return "(@None Z)", "optZ"
        if isinstance(e, ast.Tuple):
            parts = [self.expr(x) for x in e.elts]
            return "(" + ", ".join(t for t, _ in parts) + ")", "*".join(ty for _, ty in parts)
        if isinstance(e, ast.IfExp):
            def both(_):
                return None
            return self.cond(e.test, lambda: self.expr(e.body), lambda: self.expr(e.orelse), is_expr=True)
        if isinstance(e, ast.Constant):
            if isinstance(e.value, bool):
                return ("true" if e.value else "false"), "bool"
            if isinstance(e.value, int):
                return ("(%d)" % e.value if e.value < 0 else str(e.value)), "Z"
            if isinstance(e.value, float) and e.value == int(e.value) and self.g.spec.get("floats_exact"):
                return self.zlit(int(e.value)), "Z"       # quantities are exact numbers in the model (named assumption)
            if isinstance(e.value, str) and e.value in self.g.strings:
                return str(self.g.strings[e.value]), "Z"
            raise Refuse("constant %r" % (e.value,))
        if isinstance(e, ast.Name):
            if e.id in self.locals:
                return "l_" + e.id, self.refined.get("l_" + e.id, self.locals[e.id])
            if e.id in self.params and e.id not in self.drop_params:
                return e.id, self.ptypes.get(e.id, "Z")
            raise Refuse("free name %s" % e.id)
        if isinstance(e, ast.Attribute):
            # enum member through the class:  ServiceOperatingState.RUNNING
            if isinstance(e.value, ast.Name) and e.value.id in self.g.enums:
                return self.zlit(self.g.enum_value([e.value.id], e.attr)), "Z"
            ch = chain(e, ("self",) + tuple(self.obj_params))
            if ch is not None and not (isinstance(e.value, ast.Name) and e.value.id in self.obj_params and False):
                # enum member through an attribute holding the enum (class or instance):  self.selected_kill_chain.FAILED
                if len(ch) == 2 and ch[0] in self.g.attr_enum:
                    return self.zlit(self.g.enum_value(self.g.attr_enum[ch[0]], ch[1])), "Z"
                if ch[0] in self.g.ignore:
                    raise Refuse("read of ignored attribute %s" % ch[0])
                nm = "_".join(cname(c) for c in ch)
                ty = self.attr_type(nm)
                self.binder(nm, ty)
                return nm, self.refined.get(nm, ty)
            raise Refuse("attribute expression %s" % src)
        if isinstance(e, ast.Call) and isinstance(e.func, ast.Name) and e.func.id in ("min", "max") and len(e.args) == 2 and not e.keywords:
            a, ta = self.expr(e.args[0]); b, tb = self.expr(e.args[1])
            if ta != "Z" or tb != "Z":
                raise Refuse("min/max of non-integers")
            return "(Z.%s %s %s)" % (e.func.id, a, b), "Z"
        if isinstance(e, ast.Call):
            k = call_key(e)
            tr = self.calls.get(k)
            if tr is None:
                raise Refuse("call %s" % k)
            if tr[0] == "oracle":
                self.binder(tr[1], tr[2])
                return tr[1], tr[2]
            if tr[0] == "ident":
                if len(e.args) != 1 or e.keywords:
                    raise Refuse("ident call with other than one argument")
                return self.expr(e.args[0])
            if tr[0] == "const":
                return self.zlit(self.const_initial_stage(tr[1])), "Z"
            if tr[0] == "field":
                # ("field", keyword): a constructed record is represented by one of its keyword arguments
                kws = {x.arg: x.value for x in e.keywords}
                if tr[1] not in kws:
                    raise Refuse("constructor %s without %s=" % (k, tr[1]))
                return self.expr(kws[tr[1]])
            if tr[0] == "pure":
                # a module-level pure function translated elsewhere: ("pure", coq name, [parameter names], [types], result type)
                cn, pnames, ptys, rty = tr[1], tr[2], tr[3], tr[4]
                kw = {x.arg: x.value for x in e.keywords}
                pos = list(e.args)
                args = []
                for pn, pt in zip(pnames, ptys):
                    a = kw.pop(pn) if pn in kw else (pos.pop(0) if pos else None)
                    if a is None:
                        raise Refuse("missing argument %s of %s" % (pn, k))
                    t, ty = self.expr(a)
                    if ty != pt:
                        raise Refuse("argument %s of %s has type %s, expected %s" % (pn, k, ty, pt))
                    args.append(t)
                if kw or pos:
                    raise Refuse("extra arguments of %s" % k)
                pre = []
                for a in (tr[5] if len(tr) > 5 else []):      # attributes of self the callee reads, passed first
                    self.binder(a, self.attr_type(a))
                    pre.append(a)
                return "(%s %s)" % (cn, " ".join(pre + args)), rty
            raise Refuse("call %s in expression position" % k)
        if isinstance(e, ast.UnaryOp):
            a, ta = self.truth(e.operand) if isinstance(e.op, ast.Not) else self.expr(e.operand)
            if isinstance(e.op, ast.Not) and ta == "bool":
                return "(negb %s)" % a, "bool"
            if isinstance(e.op, ast.USub) and ta == "Z":
                return "(- %s)" % a, "Z"
            raise Refuse("unary operator")
        if isinstance(e, ast.BinOp):
            a, ta = self.expr(e.left); b, tb = self.expr(e.right)
            if ta != "Z" or tb != "Z":
                raise Refuse("arithmetic on non-integers")
            for k, fmt in {ast.Add: "(%s + %s)", ast.Sub: "(%s - %s)", ast.Mult: "(%s * %s)", ast.Mod: "(Z.modulo %s %s)"}.items():   # Python's % and Z.modulo both take the sign of the divisor
                if isinstance(e.op, k):
                    return fmt % (a, b), "Z"
            raise Refuse("binary operator %s" % type(e.op).__name__)
        if isinstance(e, ast.Compare) and len(e.ops) == 1:
            op, rhs = e.ops[0], e.comparators[0]
            if isinstance(op, (ast.In, ast.NotIn)):
                if not isinstance(rhs, (ast.List, ast.Tuple)) or not rhs.elts:
                    raise Refuse("membership in a non-literal")
                a, ta = self.expr(e.left)
                parts = []
                for x in rhs.elts:
                    b, tb = self.expr(x)
                    if ta != "Z" or tb != "Z":
                        raise Refuse("membership on non-integers")
                    parts.append("(%s =? %s)" % (a, b))
                t = "(" + " || ".join(parts) + ")"
                return ("(negb %s)" % t if isinstance(op, ast.NotIn) else t), "bool"
            a, ta = self.expr(e.left); b, tb = self.expr(rhs)
            if ta == "Z" and tb == "infZ" and isinstance(op, (ast.Lt, ast.LtE)):
                return "(match %s with None => true | Some m__ => (%s %s m__) end)" % (b, a, "<?" if isinstance(op, ast.Lt) else "<=?"), "bool"
            if "optZ" in (ta, tb) and isinstance(op, (ast.Eq, ast.NotEq, ast.Is, ast.IsNot)) and {ta, tb} <= {"optZ", "Z"}:
                if isinstance(op, (ast.Is, ast.IsNot)) and "(@None Z)" not in (a, b):
                    raise Refuse("identity comparison of optional values")
                oa = a if ta == "optZ" else "(Some %s)" % a
                ob = b if tb == "optZ" else "(Some %s)" % b
                t = "(match %s, %s with Some x__, Some y__ => (x__ =? y__) | None, None => true | _, _ => false end)" % (oa, ob)
                return (t if isinstance(op, (ast.Eq, ast.Is)) else "(negb %s)" % t), "bool"
            if ta == "bool" and tb == "bool" and isinstance(op, (ast.Eq, ast.NotEq, ast.Is, ast.IsNot)):
                pos = isinstance(op, (ast.Eq, ast.Is))
                if b in ("true", "false"):
                    return (a if (b == "true") == pos else "(negb %s)" % a), "bool"
                return ("(Bool.eqb %s %s)" % (a, b) if pos else "(negb (Bool.eqb %s %s))" % (a, b)), "bool"
            if ta != "Z" or tb != "Z":
                raise Refuse("comparison of non-integers")
            ops = {ast.Lt: "(%s <? %s)", ast.LtE: "(%s <=? %s)", ast.Gt: "(%s >? %s)", ast.GtE: "(%s >=? %s)", ast.Eq: "(%s =? %s)",
                   ast.NotEq: "(negb (%s =? %s))", ast.Is: "(%s =? %s)", ast.IsNot: "(negb (%s =? %s))"}
            for k, fmt in ops.items():
                if isinstance(op, k):
                    return fmt % (a, b), "bool"
            raise Refuse("comparison operator")
        if isinstance(e, ast.BoolOp):
            parts = [self.truth(v) for v in e.values]
            if any(t != "bool" for _x, t in parts):
                raise Refuse("and/or of non-booleans")
            return "(" + (" && " if isinstance(e.op, ast.And) else " || ").join(x for x, _t in parts) + ")", "bool"
        raise Refuse("expression %s" % type(e).__name__)

    def truth(self, e):
        """the truth value of an expression: a boolean as it is; an optional declared truthy-when-present by its presence"""
        t, ty = self.expr(e)
        if ty == "optZ":
            key = ("l_" + e.id) if isinstance(e, ast.Name) else t
            if key not in self.truthy_some and t not in self.truthy_some:
                raise Refuse("truth value of the optional %s (not declared truthy-when-present)" % t)
            return "(match %s with Some _ => true | None => false end)" % t, "bool"
        return t, ty

    @staticmethod
    def zlit(v):
        return "(%d)" % v if v < 0 else str(v)

    def const_initial_stage(self, enum_names):
        """`X.initial_stage(X)`: every listed enum's initial_stage is `return self.<M>` and all those members have one value"""
        vals = set()
        for path in self.g.spec.get("enum_files", []):
            tree = ast.parse(open(os.path.join(self.g.repo, path)).read())
            for n in tree.body:
                if isinstance(n, ast.ClassDef) and n.name in enum_names:
                    fs = [s for s in n.body if isinstance(s, ast.FunctionDef) and s.name == "initial_stage"]
                    if len(fs) != 1:
                        raise Refuse("initial_stage of %s" % n.name)
                    body = [s for s in fs[0].body if not (isinstance(s, ast.Expr) and isinstance(s.value, ast.Constant))]
                    if len(body) != 1 or not isinstance(body[0], ast.Return) or not isinstance(body[0].value, ast.Attribute) or \
                            not (isinstance(body[0].value.value, ast.Name) and body[0].value.value.id == "self"):
                        raise Refuse("initial_stage of %s is not `return self.<member>`" % n.name)
                    vals.add(self.g.enums[n.name][body[0].value.attr])
        if len(vals) != 1:
            raise Refuse("initial stages %s" % sorted(vals))
        return vals.pop()

    @staticmethod
    def coq_type(ty):
        if "*" in ty:
            return "(" + " * ".join(TrM.coq_type(x) for x in ty.split("*")) + ")"
        if ty.startswith("coq:"):
            return ty[4:]
        return {"optZ": "option Z", "infZ": "option Z", "events": "list (Z * list Z)"}.get(ty, ty)

    def refinable(self, e):
        """(coq name) when e is a local or an attribute chain of optional type that is not yet refined"""
        if isinstance(e, ast.Name) and e.id in self.locals and self.locals[e.id] == "optZ" and ("l_" + e.id) not in self.refined:
            return "l_" + e.id
        ch = chain(e, ("self",) + tuple(self.obj_params)) if isinstance(e, ast.Attribute) else None
        if ch:
            nm = "_".join(cname(c) for c in ch)
            if self.attr_type(nm) == "optZ" and nm not in self.refined:
                self.binder(nm, "optZ")
                return nm
        return None

    def cond(self, test, then_thunk, else_thunk, is_expr=False):
        """if/else on `test`; an optional value tested for presence is known to be an integer in the branch where it is present"""
        neg = False
        t = test
        while isinstance(t, ast.UnaryOp) and isinstance(t.op, ast.Not):
            neg, t = not neg, t.operand
        target = None
        if isinstance(t, ast.Compare) and len(t.ops) == 1 and isinstance(t.ops[0], (ast.Is, ast.IsNot)) and \
                isinstance(t.comparators[0], ast.Constant) and t.comparators[0].value is None:
            target = self.refinable(t.left)
            if isinstance(t.ops[0], ast.Is):
                neg = not neg
        elif isinstance(t, (ast.Name, ast.Attribute)):
            nm = self.refinable(t)
            if nm is not None:
                if nm not in self.truthy_some:
                    raise Refuse("truth value of the optional %s (not declared truthy-when-present)" % nm)
                target = nm
        if self.loop is not None and isinstance(t, ast.Name) and t.id == self.loop["var"] and not is_expr:
            if not self.loop["cfg"].get("optional"):
                raise Refuse("truth value of the loop element (elements not declared optional)")
            pres, _ = self.field(cname(self.loop["var"]) + "_present", "bool")
            sl, sr = dict(self.locals), dict(self.refined)
            a = then_thunk(); self.locals, self.refined = dict(sl), dict(sr)
            b = else_thunk(); self.locals, self.refined = dict(sl), dict(sr)
            return "if %s then %s\n  else %s" % (("(negb %s)" % pres) if neg else pres, a, b)
        saved_l, saved_r = dict(self.locals), dict(self.refined)

        def run(thunk, refine):
            self.locals, self.refined = dict(saved_l), dict(saved_r)
            if refine:
                self.refined[target] = "Z"
            r = thunk()
            self.locals, self.refined = dict(saved_l), dict(saved_r)
            return r
        if target is not None:
            some = run(else_thunk if neg else then_thunk, True)
            none = run(then_thunk if neg else else_thunk, False)
            if is_expr:
                if some[1] != none[1]:
                    raise Refuse("branches of a conditional expression have different types")
                return "(match %s with Some %s => %s | None => %s end)" % (target, target, some[0], none[0]), some[1]
            return "match %s with Some %s => %s\n  | None => %s end" % (target, target, some, none)
        try:
            snapshot = list(self.binders)
            c, tc = self.expr(test)
        except Refuse:
            self.binders = snapshot
            if is_expr or any(isinstance(n, ast.Call) for n in ast.walk(test)):
                raise
            a = run(then_thunk, False)
            b = run(else_thunk, False)
            if a == b:      # the test guards only erased statements
                return a
            raise
        if tc == "Z" and isinstance(test, ast.Attribute):
            # the truth value of an enum member: always true for Enum, value != 0 for IntEnum
            ch = chain(test)
            names = [test.value.id] if isinstance(test.value, ast.Name) and test.value.id in self.g.enums else \
                (self.g.attr_enum.get(ch[0]) if ch and len(ch) == 2 else None)
            if names:
                v = self.g.enum_value(names, test.attr)
                truth = all((v != 0) if ENUM_INT.get(n2, False) else True for n2 in names if n2 in self.g.enums)
                c, tc = ("true" if truth else "false"), "bool"
        if tc != "bool":
            raise Refuse("condition is not a boolean")
        a = run(then_thunk, False)
        b = run(else_thunk, False)
        if is_expr:
            if a[1] != b[1]:
                raise Refuse("branches of a conditional expression have different types")
            return "(if %s then %s else %s)" % (c, a[0], b[0]), a[1]
        if a == b:          # a branch that only logs: both ways continue identically
            return a
        return "if %s then %s\n  else %s" % (c, a, b)

    # -- statements -----------------------------------------------------------------------------------------------
    def final(self, ret):
        if not self.writes:
            return ret
        w = self.writes[0] if len(self.writes) == 1 else "(" + ", ".join(self.writes) + ")"
        return "(%s, %s)" % (ret, w)

    @staticmethod
    def is_logging(s):
        if not (isinstance(s, ast.Expr) and isinstance(s.value, ast.Call) and isinstance(s.value.func, ast.Attribute)):
            return False
        f = s.value.func
        base, names = f.value, []
        while isinstance(base, ast.Attribute):
            names.append(base.attr); base = base.value
        if isinstance(base, ast.Name):
            names.append(base.id)
        return f.attr in ("debug", "info", "warning", "error", "critical") and any(n in ("_LOGGER", "sys_log", "logger") for n in names)

    def only_logged(self, name):
        """the local `name` is read nowhere outside logging statements"""
        def uses(stmts):
            for st in stmts:
                if self.is_logging(st):
                    continue
                if isinstance(st, (ast.If,)):
                    if any(isinstance(n, ast.Name) and n.id == name for n in ast.walk(st.test)):
                        return True
                    if uses(st.body) or uses(st.orelse):
                        return True
                    continue
                if isinstance(st, ast.Assign) and len(st.targets) == 1 and isinstance(st.targets[0], ast.Name) and st.targets[0].id == name:
                    continue
                if any(isinstance(n, ast.Name) and n.id == name and isinstance(n.ctx, ast.Load) for n in ast.walk(st)):
                    return True
            return False
        return not uses(self.f.body)

    def call_stmt(self, c, rest_thunk, result="_"):
        k = call_key(c)
        tr = self.calls.get(k)
        if tr is None:
            raise Refuse("call %s" % k)
        if tr[0] == "erase":
            return rest_thunk()
        if tr[0] == "emit":
            return self.emit(tr, rest_thunk)
        if tr[0] == "fn":
            callee = self.g.done[tr[1]]
            args = []
            kw = {x.arg: x.value for x in c.keywords}
            pos = list(c.args)
            for p in callee.params:
                a = kw.pop(p) if p in kw else (pos.pop(0) if pos else None)
                if a is None:
                    raise Refuse("missing argument %s in call of %s" % (p, tr[1]))
                t, ty = self.expr(a)
                if ty != callee.ptypes.get(p, "Z"):
                    raise Refuse("argument type in call of %s" % tr[1])
                args.append(t)
            # arguments for dropped parameters of the callee are accepted and not passed
            if kw and set(kw) - set(callee.dropped):
                raise Refuse("unexpected keyword arguments in call of %s" % tr[1])
            if len(pos) > len([d for d in callee.dropped if d not in kw]):
                raise Refuse("too many arguments in call of %s" % tr[1])
            for (n, t) in callee.binders:
                self.binder(n, t)
            app = " ".join([callee.name] + [n for (n, _t) in callee.binders] + args)
            if not callee.writes:
                return rest_thunk() if result == "_" else "let %s := %s in\n  %s" % (result, app, rest_thunk())
            w = callee.writes[0] if len(callee.writes) == 1 else "(" + ", ".join(callee.writes) + ")"
            return "let '(%s, %s) := %s in\n  %s" % (result, w, app, rest_thunk())
        raise Refuse("call %s as a statement" % k)

    def fold(self, s, nxt):
        cfg = self.m["folds"][ast.unparse(s.iter)]
        if not isinstance(s.target, ast.Name) or s.orelse or self.loop is not None:
            raise Refuse("loop shape")
        body = [b for b in s.body if not (isinstance(b, ast.Expr) and isinstance(b.value, ast.Constant))]
        # what the body assigns: locals defined before the loop and attributes of self are carried from one iteration to the next
        carried = []
        for n in ast.walk(ast.Module(body=body, type_ignores=[])):
            tg = n.targets if isinstance(n, ast.Assign) else [n.target] if isinstance(n, ast.AugAssign) else []
            for t in tg:
                for x in (t.elts if isinstance(t, ast.Tuple) else [t]):
                    if isinstance(x, ast.Name) and x.id in self.locals and ("l_" + x.id) not in carried:
                        carried.append("l_" + x.id)
                    ch = chain(x) if isinstance(x, ast.Attribute) else None
                    if ch is not None and ch[0] not in self.g.ignore:
                        nm = "_".join(cname(c) for c in ch)
                        self.binder(nm, self.attr_type(nm))
                        if nm not in carried:
                            carried.append(nm)
        has_break = any(isinstance(n, ast.Break) for n in ast.walk(ast.Module(body=body, type_ignores=[])))
        if has_break:
            carried.append("stop__")
        if not carried:
            raise Refuse("a loop that carries nothing")
        acc = "(" + ", ".join(carried) + ")" if len(carried) > 1 else carried[0]
        before_locals = dict(self.locals)
        self.loop = {"var": s.target.id, "cfg": cfg, "fields": [], "acc": lambda: acc}
        saved_refined = dict(self.refined)
        self.refined = {k: v for k, v in self.refined.items() if k not in carried}
        try:
            text = self.block(body, lambda: acc)
            fields = list(self.loop["fields"])
        finally:
            self.loop = None
        self.locals = before_locals          # locals first assigned inside the body do not outlive it
        self.refined = {k: v for k, v in saved_refined.items() if k not in carried}
        if not fields:
            raise Refuse("a loop that reads nothing of its elements")
        items = cfg["items"]
        self.binder(items, "coq:list (%s)" % " * ".join(self.coq_type(t) for _n, t in fields))
        el = "(" + ", ".join(n for n, _t in fields) + ")" if len(fields) > 1 else fields[0][0]
        if has_break:
            text = "if stop__ then %s\n  else %s" % (acc, text)
        pre = "let stop__ := false in\n  " if has_break else ""
        def cty(c):
            if c == "stop__":
                return "bool"
            if c.startswith("l_") and c[2:] in before_locals:
                return self.coq_type(before_locals[c[2:]])
            return self.coq_type(self.attr_type(c))
        acc_ty = " * ".join(cty(c) for c in carried)
        el_ty = " * ".join(self.coq_type(t) for _n, t in fields)
        return "%slet '%s := fold_left (fun (acc__ : %s) (el__ : %s) => let '%s := acc__ in let '%s := el__ in\n  %s) %s %s in\n  %s" % (
            pre, acc if len(carried) > 1 else "(%s)" % acc, acc_ty, el_ty, acc if len(carried) > 1 else "(%s)" % acc, el if len(fields) > 1 else "(%s)" % el,
            text, items, acc, nxt())

    def block(self, stmts, rest):
        """rest: None = end of the method; otherwise a thunk giving the text of what follows"""
        if not stmts:
            if rest is None:
                if self.rtype != "unit":
                    raise Refuse("a path of %s does not end in return" % self.f.name)
                return self.final("tt")
            return rest()
        s, tail = stmts[0], stmts[1:]
        nxt = lambda: self.block(tail, rest)
        if isinstance(s, ast.Expr) and isinstance(s.value, ast.Constant) and isinstance(s.value.value, str):
            return nxt()
        if isinstance(s, ast.Pass) or self.is_logging(s):
            return nxt()
        if ast.unparse(s) in self.m.get("stmts", {}):
            tr = self.m["stmts"][ast.unparse(s)]
            if tr[0] == "erase":
                return nxt()
            if tr[0] == "emit":
                return self.emit(tr, nxt)
            raise Refuse("statement treatment %s" % (tr,))
        if isinstance(s, ast.Return):
            if s.value is None:
                if self.rtype != "unit":
                    raise Refuse("bare return in %s" % self.f.name)
                return self.final("tt")
            if isinstance(s.value, ast.Call) and self.calls.get(call_key(s.value), [None])[0] == "fn":
                raise Refuse("return of a state-changing call")
            val = s.value
            rm = self.m.get("returns")
            if rm is not None:
                # returned values outside the subset are represented by configured constants ("default" for the rest)
                key = ast.unparse(val)
                if key not in rm and "default" not in rm:
                    raise Refuse("return value %s" % key)
                t, ty = rm.get(key, rm.get("default"))
                if ty != self.rtype:
                    raise Refuse("configured return type")
                return self.final(t)
            if isinstance(val, ast.Dict) and self.m.get("ret_fields"):
                # a returned dictionary is represented by the listed entries (every returned dictionary must have them)
                have = {k.value: v for k, v in zip(val.keys, val.values) if isinstance(k, ast.Constant)}
                missing = [f for f in self.m["ret_fields"] if f not in have]
                if missing:
                    raise Refuse("returned dictionary lacks %s" % missing)
                parts = [self.expr(have[f]) for f in self.m["ret_fields"]]
                t, ty = (parts[0] if len(parts) == 1 else ("(" + ", ".join(x for x, _ in parts) + ")", "*".join(y for _, y in parts)))
            elif isinstance(val, ast.Tuple) and "*" in self.rtype and len(val.elts) == len(self.rtype.split("*")):
                parts = []
                for x, want in zip(val.elts, self.rtype.split("*")):
                    tx, tyx = self.expr(x)
                    if tyx == "Z" and want == "optZ":      # an optional known to be present on this path
                        tx, tyx = "(Some %s)" % tx, "optZ"
                    parts.append((tx, tyx))
                t, ty = "(" + ", ".join(x for x, _ in parts) + ")", "*".join(y for _, y in parts)
            else:
                t, ty = self.expr(val)
                if ty == "Z" and self.rtype == "optZ":
                    t, ty = "(Some %s)" % t, "optZ"
            if ty != self.rtype:
                raise Refuse("return type %s, expected %s in %s" % (ty, self.rtype, self.f.name))
            return self.final(t)
        if isinstance(s, ast.Expr) and isinstance(s.value, ast.Call):
            return self.call_stmt(s.value, nxt)
        if isinstance(s, ast.AnnAssign) and s.value is not None and s.simple:
            return self.block([ast.copy_location(ast.Assign(targets=[s.target], value=s.value, type_comment=None), s)] + list(tail), rest)
        if isinstance(s, ast.Continue) and self.loop is not None:
            return self.loop["acc"]()
        if isinstance(s, ast.Break) and self.loop is not None:
            return "let stop__ := true in\n  %s" % self.loop["acc"]()
        if isinstance(s, ast.Assign) and len(s.targets) == 1 and isinstance(s.targets[0], ast.Tuple) and self.loop is not None:
            spec_f = self.loop["cfg"].get("fields", {}).get(ast.unparse(s.value))
            names = [x.id for x in s.targets[0].elts if isinstance(x, ast.Name)]
            if not isinstance(spec_f, list) or len(spec_f) != len(names) or len(names) != len(s.targets[0].elts):
                raise Refuse("tuple assignment %s" % ast.unparse(s))
            text = ""
            for nm_, (fn_, ft_) in zip(names, spec_f):
                self.field(fn_, ft_)
                if nm_ in self.locals and self.locals[nm_] != ft_:
                    raise Refuse("local %s re-assigned at another type" % nm_)
                self.locals[nm_] = ft_
                self.locals_seen.add("l_" + nm_)
                text += "let l_%s := %s in\n  " % (nm_, fn_)
            return text + nxt()
        if isinstance(s, ast.For) and ast.unparse(s.iter) in self.m.get("folds", {}):
            return self.fold(s, nxt)
        if isinstance(s, ast.For):
            tr = self.calls.get(self.for_key(s))
            if tr is None or s.orelse:
                raise Refuse("loop %s" % self.for_key(s))
            if tr[0] == "erase":
                return nxt()
            if tr[0] == "emit":
                return self.emit(tr, nxt)
            raise Refuse("loop %s" % self.for_key(s))
        if isinstance(s, (ast.Assign, ast.AugAssign)):
            target = s.targets[0] if isinstance(s, ast.Assign) else s.target
            if isinstance(s, ast.Assign) and len(s.targets) != 1:
                raise Refuse("multiple assignment targets")
            ch = chain(target, ("self",) + tuple(self.m.get("local_objects", [])))
            if isinstance(target, ast.Subscript) and ast.unparse(target) in self.m.get("setitem_attrs", {}):
                # an entry of a dictionary being built, treated as an attribute of the result
                nm = self.m["setitem_attrs"][ast.unparse(target)]
                t, tv = self.expr(s.value)
                if tv != self.attr_type(nm):
                    raise Refuse("type of %s" % nm)
                self.binder(nm, tv)
                return "let %s := %s in\n  %s" % (nm, t, nxt())
            if isinstance(target, ast.Subscript):
                tr = self.calls.get("setitem:" + ast.unparse(target.value))
                if tr is None or tr[0] != "emit":
                    raise Refuse("item assignment %s" % ast.unparse(target.value))
                return self.emit(tr, nxt)
            if ch is not None:
                if ch[0] in self.g.ignore:
                    return nxt()
                nm = "_".join(cname(c) for c in ch)
                ty = self.attr_type(nm)
                if isinstance(s, ast.AugAssign):
                    v, tv = self.expr(s.value)
                    if ty != "Z" or tv != "Z" or not isinstance(s.op, (ast.Add, ast.Sub)):
                        raise Refuse("augmented assignment")
                    self.binder(nm, ty)
                    t = "(%s %s %s)" % (nm, "+" if isinstance(s.op, ast.Add) else "-", v)
                elif isinstance(s.value, ast.Constant) and s.value.value is None:
                    if ch[0] not in self.g.none_as:
                        raise Refuse("None assigned to %s" % ch[0])
                    t = self.zlit(self.g.none_as[ch[0]])
                else:
                    t, tv = self.expr(s.value)
                    if tv != ty:
                        raise Refuse("assignment of %s to %s attribute %s" % (tv, ty, nm))
                self.binder(nm, ty)        # its initial value is returned on the paths that do not assign it
                return "let %s := %s in\n  %s" % (nm, t, nxt())
            if isinstance(target, ast.Name) and isinstance(s, ast.AugAssign) and isinstance(s.op, (ast.Add, ast.Sub)):
                if target.id not in self.locals or self.locals[target.id] != "Z":
                    raise Refuse("augmented assignment to %s" % target.id)
                v, tv = self.expr(s.value)
                if tv != "Z":
                    raise Refuse("augmented assignment of a non-integer")
                return "let l_%s := (l_%s %s %s) in\n  %s" % (target.id, target.id, "+" if isinstance(s.op, ast.Add) else "-", v, nxt())
            if isinstance(target, ast.Name) and isinstance(s, ast.Assign):
                if target.id in self.params and target.id in self.drop_params:
                    return nxt()          # a parameter that is never read by the translation (normalised for the erased uses)
                if target.id in self.params:
                    # a parameter re-bound to a new value: shadowed from here on
                    t, ty = self.expr(s.value)
                    if ty != self.ptypes.get(target.id, "Z"):
                        raise Refuse("parameter %s re-assigned at another type" % target.id)
                    return "let %s := %s in\n  %s" % (target.id, t, nxt())
                if target.id in self.m.get("erase_locals", []) or target.id in self.m.get("local_objects", []):
                    return nxt()
                snapshot = list(self.binders)
                try:
                    t, ty = self.expr(s.value)
                except Refuse:
                    self.binders = snapshot
                    if target.id in self.m.get("erase_locals", []):
                        return nxt()          # a container built only to be iterated by a loop that is itself recorded as an event
                    if target.id not in self.locals and self.only_logged(target.id):
                        return nxt()          # a value built only to be written to a log
                    raise
                if target.id in self.locals:
                    have = self.locals[target.id]
                    if have in ("optZ", "infZ") and ty == "Z":
                        t, ty = "(Some %s)" % t, have
                    if have != ty:
                        raise Refuse("local %s re-assigned at another type (%s, was %s)" % (target.id, ty, have))
                    self.refined.pop("l_" + target.id, None)
                self.locals[target.id] = ty
                self.locals_seen.add("l_" + target.id)
                return "let l_%s := %s in\n  %s" % (target.id, t, nxt())
            raise Refuse("assignment target")
        if isinstance(s, ast.If) and isinstance(s.test, ast.Call) and self.calls.get(call_key(s.test), [None])[0] == "havoc":
            # ("havoc", result parameter, tag, [attributes recorded], {attribute: parameter holding its value after the call}):
            # a call into other objects that may come back into this one: its moment is recorded as an event, the listed
            # attributes continue with unknown values (fresh parameters), its boolean result is a parameter
            _, res, tag, snap, after = self.calls[call_key(s.test)]
            self.binder(res, "bool")
            pre = self.emit(("emit", tag, snap), lambda: "@@REST@@")
            lets = ""
            for a, pn in after.items():
                self.binder(pn, self.attr_type(a))
                self.binder(a, self.attr_type(a))
                lets += "let %s := %s in\n  " % (a, pn)
            then = self.block(s.body, nxt)
            els = self.block(s.orelse, nxt) if s.orelse else nxt()
            return pre.replace("@@REST@@", lets + "if %s then %s\n  else %s" % (res, then, els))
        if isinstance(s, ast.If):
            tcall, tneg = s.test, False
            if isinstance(tcall, ast.UnaryOp) and isinstance(tcall.op, ast.Not):
                tcall, tneg = tcall.operand, True
            if isinstance(tcall, ast.Call) and self.calls.get(call_key(tcall), [None])[0] == "fn":
                # `if [not] self.m(..):` on a translated method: run it (state threaded), then branch on its boolean result
                callee = self.g.done[self.calls[call_key(tcall)][1]]
                if callee.rtype != "bool":
                    raise Refuse("condition is a call of a method that does not return a boolean")
                def branches():
                    a = self.block(s.body, nxt)
                    b = self.block(s.orelse, nxt) if s.orelse else nxt()
                    return "if %s then %s\n  else %s" % ("(negb r__)" if tneg else "r__", a, b)
                return self.call_stmt(tcall, branches, result="r__")
            return self.cond(s.test, lambda: self.block(s.body, nxt), (lambda: self.block(s.orelse, nxt)) if s.orelse else nxt)
        raise Refuse("statement %s in %s" % (type(s).__name__, self.f.name))

    def run(self):
        stmts = list(self.f.body)
        only = self.m.get("only_if")
        if only:
            # translate only the body of the one top-level `if <only>` (the method's other parts are modelled elsewhere)
            idx = [i for i, st in enumerate(stmts) if isinstance(st, ast.If) and ast.unparse(st.test) == only and not st.orelse]
            if len(idx) != 1:
                raise Refuse("only_if: `if %s` not found exactly once at the top level of %s" % (only, self.f.name))
            stmts = list(stmts[idx[0]].body)
        cut_s = self.m.get("until_stmt")
        if cut_s:
            # translate the statements before the first one whose source text starts with the given prefix; the result is the
            # configured expression evaluated at that point (the rest of the method is modelled elsewhere)
            idx = [i for i, st in enumerate(stmts) if ast.unparse(st).startswith(cut_s)]
            if len(idx) != 1:
                raise Refuse("until_stmt: `%s` not found exactly once at the top level of %s" % (cut_s, self.f.name))
            stmts = stmts[:idx[0]] + [ast.copy_location(ast.Return(value=ast.parse(self.m["result_expr"], mode="eval").body), stmts[idx[0]])]
        cut = self.m.get("until_if")
        if cut:
            idx = [i for i, st in enumerate(stmts) if isinstance(st, ast.If) and ast.unparse(st.test) == cut]
            if len(idx) != 1:
                raise Refuse("until_if: `if %s` not found exactly once at the top level of %s" % (cut, self.f.name))
            stmts = stmts[:idx[0]]
        self.prepass(stmts)
        body = self.block(stmts, None)
        for w in self.writes:        # the initial value of an attribute is what the paths that do not assign it return
            self.binder(w, self.attr_type(w))
        names = [n for (n, _t) in self.binders] + [p for p in self.params if p not in self.drop_params and p not in self.obj_params]
        if len(set(names)) != len(names) or set(names) & set(self.locals_seen):
            raise Refuse("name clash between attributes, parameters and locals in %s" % self.f.name)
        fn = Fn()
        fn.name = self.m.get("name") or "%s_%s" % (self.m["cls"], cname(self.m["fn"]))
        fn.binders = list(self.binders)
        fn.params = [p for p in self.params if p not in self.drop_params and p not in self.obj_params]
        fn.dropped = [p for p in self.params if p in self.drop_params]
        fn.ptypes = self.ptypes
        fn.writes = list(self.writes)
        fn.rtype = self.rtype
        wt = [self.coq_type(self.attr_type(w)) for w in fn.writes]
        rty = self.coq_type(fn.rtype) if not wt else "%s * %s" % (self.coq_type(fn.rtype), wt[0] if len(wt) == 1 else "(" + " * ".join(wt) + ")")
        bs = " ".join("(%s : %s)" % (n, self.coq_type(t)) for (n, t) in fn.binders) + "".join(" (%s : %s)" % (p, self.coq_type(fn.ptypes.get(p, "Z"))) for p in fn.params)
        fn.text = "Definition %s %s : %s :=\n  %s.\n" % (fn.name, bs, rty, body)
        fn.doc = "(* %s::%s.%s -- reads: %s%s; writes: %s *)" % (self.m["path"], self.m["cls"], self.m["fn"], ", ".join(n for n, _ in fn.binders) or "-",
                                                               ("; parameters: " + ", ".join(fn.params)) if fn.params else "", ", ".join(fn.writes) or "-")
        return fn


def translate_group(repo, spec):
    g = Group(repo, spec)
    out = ["(* GENERATED by translator/py2coq_imp.py from the current source of %s -- do not edit; not committed. *)" % repo,
           "From Coq Require Import ZArith Bool List.", "Import ListNotations."] + list(spec.get("imports", [])) + ["Open Scope Z_scope.", "Open Scope bool_scope.", ""]
    for m in spec["methods"]:
        fn = g.translate(m)
        out.append(fn.doc)
        out.append(fn.text)
    return "\n".join(out)
