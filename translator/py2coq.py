"""Fail-closed translator from a small subset of Python (ast) to Gallina, for the pure decision kernels of PrimAITE.

Supported: a function (or method) whose body is a docstring followed by statements of the forms
    name = <expr>            (single assignment to a fresh local name)
    if <expr>: <block> [elif ...] [else: <block>]     where every branch ends in `return`, or falls through to the rest
    return <expr>
with <expr> built from integer literals, True / False, parameter and local names, `self.<attr>` (becomes a parameter),
`int(x)` (identity: the harness passes integers), + - * unary -, & | ~, comparisons < <= > >= == != (single), and / or / not,
min / max.  Anything else raises: the check then reports a broken translation obligation instead of guessing.
Logging calls (`_LOGGER.x(...)`, `self.sys_log.x(...)`) as expression statements are erased.

KERNELS maps a group name to the functions translated into coq/Gen/<Group>.v and the file holding the Gen = Model proofs."""
import ast, os

KERNELS = {
    "obs": {"gen": "Gen/GenObs.v", "eq": "Proofs/GenEqObs.vo",
            "functions": ["NICObservation._categorise_mne_count", "ApplicationObservation._categorise_num_executions", "FileObservation._categorise_num_access"],
            "sources": [("src/primaite/game/agent/observations/nic_observations.py", "NICObservation", "_categorise_mne_count", "Z"),
                        ("src/primaite/game/agent/observations/software_observation.py", "ApplicationObservation", "_categorise_num_executions", "Z"),
                        ("src/primaite/game/agent/observations/file_system_observations.py", "FileObservation", "_categorise_num_access", "Z")]},
    "episode": {"gen": "Gen/GenEpisode.v", "eq": "Proofs/GenEqEpisode.vo", "functions": ["PrimaiteGame.calculate_truncated"],
                "sources": [("src/primaite/game/game.py", "PrimaiteGame", "calculate_truncated", "bool")]},
    "link": {"gen": "Gen/GenLink.v", "eq": "Proofs/GenEqLink.vo", "functions": ["Link.can_transmit_frame"],
             "sources": [("src/primaite/simulator/network/hardware/base.py", "Link", "can_transmit_frame", "bool", {"is_up": "bool"})]},
    "acl": {"gen": "Gen/GenAcl.v", "eq": "Proofs/GenEqAcl.vo", "functions": ["ip_matches_masked_range"],
            "sources": [("src/primaite/simulator/network/hardware/nodes/network/router.py", None, "ip_matches_masked_range", "bool")]},
}


import sys as _sys
_sys.path.insert(0, os.path.dirname(os.path.abspath(__file__)))
import py2coq_imp, kernels_imp
for _name, _g in kernels_imp.GROUPS.items():
    KERNELS[_name] = {"gen": _g["gen"], "eq": _g["eq"], "functions": _g["functions"], "imp": _g}


class Refuse(Exception):
    pass


def find(tree, cls, fn):
    body = tree.body
    if cls is not None:
        c = [n for n in body if isinstance(n, ast.ClassDef) and n.name == cls]
        if len(c) != 1:
            raise Refuse("class %s not found exactly once" % cls)
        body = c[0].body
    f = [n for n in body if isinstance(n, ast.FunctionDef) and n.name == fn]
    if len(f) != 1:
        raise Refuse("function %s not found exactly once" % fn)
    return f[0]


class Tr:
    def __init__(self, fn, rtype, attr_types=None):
        self.fn, self.rtype = fn, rtype
        self.attr_types = attr_types or {}
        self.obj_params = set()
        self.all_params = [a.arg for a in fn.args.args if a.arg != "self"]
        self.params = list(self.all_params)
        if fn.args.vararg or fn.args.kwarg or fn.args.kwonlyargs:
            raise Refuse("unsupported parameter kinds")
        self.attrs = []          # self.<attr> in order of first use
        self.locals = []

    # expressions: returns (text, type) with type in {"Z", "bool"}
    def expr(self, e):
        if isinstance(e, ast.Constant):
            if isinstance(e.value, bool):
                return ("true" if e.value else "false"), "bool"
            if isinstance(e.value, int):
                return ("(%d)" % e.value if e.value < 0 else str(e.value)), "Z"
            raise Refuse("constant %r" % (e.value,))
        if isinstance(e, ast.Name):
            if e.id in self.params or e.id in self.locals:
                return e.id, self.ltype.get(e.id, "Z")
            raise Refuse("free name %s" % e.id)
        if isinstance(e, ast.Attribute) and isinstance(e.value, ast.Name) and e.value.id == "self":
            if e.attr not in self.attrs:
                self.attrs.append(e.attr)
            return e.attr, self.attr_types.get(e.attr, "Z")
        if isinstance(e, ast.Attribute) and isinstance(e.value, ast.Name) and e.value.id in self.all_params:
            # an attribute of an object parameter (frame.size_Mbits): the object parameter is replaced by the attributes read
            nm = "%s__%s" % (e.value.id, e.attr)
            self.obj_params.add(e.value.id)
            if nm not in self.attrs:
                self.attrs.append(nm)
            return nm, self.attr_types.get(nm, "Z")
        if isinstance(e, ast.Attribute) and isinstance(e.value, ast.Attribute) and isinstance(e.value.value, ast.Name) and e.value.value.id == "self":
            nm = "%s_%s" % (e.value.attr, e.attr)           # self.options.max_episode_length
            if nm not in self.attrs:
                self.attrs.append(nm)
            return nm, "Z"
        if isinstance(e, ast.Call) and isinstance(e.func, ast.Name) and e.func.id == "int" and len(e.args) == 1 and not e.keywords:
            t, ty = self.expr(e.args[0])
            if ty != "Z":
                raise Refuse("int() of a non-integer")
            return t, "Z"
        if isinstance(e, ast.Call) and isinstance(e.func, ast.Name) and e.func.id in ("min", "max") and len(e.args) == 2 and not e.keywords:
            a, ta = self.expr(e.args[0]); b, tb = self.expr(e.args[1])
            if ta != "Z" or tb != "Z":
                raise Refuse("min/max of non-integers")
            return "(Z.%s %s %s)" % (e.func.id, a, b), "Z"
        if isinstance(e, ast.UnaryOp):
            a, ta = self.expr(e.operand)
            if isinstance(e.op, ast.Not) and ta == "bool":
                return "(negb %s)" % a, "bool"
            if isinstance(e.op, ast.USub) and ta == "Z":
                return "(- %s)" % a, "Z"
            if isinstance(e.op, ast.Invert) and ta == "Z":
                return "(Z.lnot %s)" % a, "Z"
            raise Refuse("unary operator")
        if isinstance(e, ast.BinOp):
            a, ta = self.expr(e.left); b, tb = self.expr(e.right)
            if ta != "Z" or tb != "Z":
                raise Refuse("arithmetic on non-integers")
            ops = {ast.Add: "(%s + %s)", ast.Sub: "(%s - %s)", ast.Mult: "(%s * %s)", ast.BitAnd: "(Z.land %s %s)", ast.BitOr: "(Z.lor %s %s)"}
            for k, fmt in ops.items():
                if isinstance(e.op, k):
                    return fmt % (a, b), "Z"
            raise Refuse("binary operator %s" % type(e.op).__name__)
        if isinstance(e, ast.Compare) and len(e.ops) == 1:
            a, ta = self.expr(e.left); b, tb = self.expr(e.comparators[0])
            if ta != "Z" or tb != "Z":
                raise Refuse("comparison of non-integers")
            ops = {ast.Lt: "(%s <? %s)", ast.LtE: "(%s <=? %s)", ast.Gt: "(%s >? %s)", ast.GtE: "(%s >=? %s)", ast.Eq: "(%s =? %s)", ast.NotEq: "(negb (%s =? %s))"}
            for k, fmt in ops.items():
                if isinstance(e.ops[0], k):
                    return fmt % (a, b), "bool"
            raise Refuse("comparison operator")
        if isinstance(e, ast.BoolOp):
            parts = [self.expr(v) for v in e.values]
            if any(t != "bool" for _x, t in parts):
                raise Refuse("and/or of non-booleans")
            op = " && " if isinstance(e.op, ast.And) else " || "
            return "(" + op.join(x for x, _t in parts) + ")", "bool"
        raise Refuse("expression %s" % type(e).__name__)

    @staticmethod
    def is_logging(s):
        if not (isinstance(s, ast.Expr) and isinstance(s.value, ast.Call) and isinstance(s.value.func, ast.Attribute)):
            return False
        f = s.value.func
        base = f.value
        names = []
        while isinstance(base, ast.Attribute):
            names.append(base.attr); base = base.value
        if isinstance(base, ast.Name):
            names.append(base.id)
        return f.attr in ("debug", "info", "warning", "error", "critical") and any(n in ("_LOGGER", "sys_log", "logger") for n in names)

    def block(self, stmts, rest):
        """translate stmts followed by the continuation text `rest` (None = nothing may follow)."""
        if not stmts:
            if rest is None:
                raise Refuse("a path does not end in return")
            return rest
        s, tail = stmts[0], stmts[1:]
        if isinstance(s, ast.Expr) and isinstance(s.value, ast.Constant) and isinstance(s.value.value, str):
            return self.block(tail, rest)
        if self.is_logging(s):
            return self.block(tail, rest)
        if isinstance(s, ast.Return):
            if s.value is None:
                raise Refuse("bare return")
            t, ty = self.expr(s.value)
            if ty != self.rtype:
                raise Refuse("return type %s, expected %s" % (ty, self.rtype))
            return t
        if isinstance(s, ast.Assign) and len(s.targets) == 1 and isinstance(s.targets[0], ast.Name):
            nm = s.targets[0].id
            if nm in self.locals or nm in self.params:
                raise Refuse("re-assignment of %s" % nm)
            t, ty = self.expr(s.value)
            self.locals.append(nm)
            self.ltype[nm] = ty
            return "let %s := %s in\n  %s" % (nm, t, self.block(tail, rest))
        if isinstance(s, ast.If):
            c, tc = self.expr(s.test)
            if tc != "bool":
                raise Refuse("condition is not a boolean")
            after = self.block(tail, rest) if (tail or rest is not None) else None
            then = self.block(s.body, after)
            els = self.block(s.orelse, after) if s.orelse else after
            if els is None:
                raise Refuse("if without else at the end of a path")
            return "if %s then %s\n  else %s" % (c, then, els)
        raise Refuse("statement %s" % type(s).__name__)

    def run(self, name):
        self.ltype = {}
        body = self.block(self.fn.body, None)
        self.params = [q for q in self.params if q not in self.obj_params]
        binders = " ".join("(%s : %s)" % (a, self.attr_types.get(a, "Z")) for a in self.attrs + self.params)
        return "Definition %s %s : %s :=\n  %s.\n" % (name, binders, self.rtype, body), self.attrs, self.params


def translate(group, repo):
    k = KERNELS[group]
    if "imp" in k:
        return py2coq_imp.translate_group(repo, k["imp"])
    out = ["(* GENERATED by translator/py2coq.py from the current source of %s -- do not edit; not committed. *)" % repo,
           "From Coq Require Import ZArith Bool.", "Open Scope Z_scope.", ""]
    for src_entry in k["sources"]:
        path, cls, fn, rtype = src_entry[:4]
        attr_types = src_entry[4] if len(src_entry) > 4 else None
        src = open(os.path.join(repo, path)).read()
        f = find(ast.parse(src), cls, fn)
        text, attrs, params = Tr(f, rtype, attr_types).run(fn.lstrip("_"))
        out.append("(* %s%s.%s  -- parameters: %s *)" % (path, "::" + cls if cls else "", fn, ", ".join(attrs + params)))
        out.append(text)
    return "\n".join(out)


if __name__ == "__main__":
    import sys
    for g in (sys.argv[1:] or KERNELS):
        print(translate(g, os.environ.get("PV_REPO", "/repo")))
